#!/bin/sh
# Build /verif/.venv (overlay of /venv) offline. Idempotent.
set -e
cd "$(dirname "$0")"
V=/verif/.venv
if [ -x "$V/bin/python" ] && "$V/bin/python" -c "import z3, crosshair, gotranx, sympy" 2>/dev/null; then
  exit 0
fi
rm -rf "$V"
/venv/bin/python -m venv "$V"
SP=$("$V/bin/python" -c "import sysconfig; print(sysconfig.get_paths()['purelib'])")
echo "import site; site.addsitedir('/venv/lib/python3.12/site-packages')" > "$SP/_base.pth"
PIP_NO_INDEX=1 "$V/bin/pip" install -q --no-index --find-links /opt/veriftools/wheels z3-solver crosshair-tool >/dev/null
"$V/bin/python" -c "import z3, crosshair, gotranx, sympy; print('verif venv ok', z3.get_version_string())"
