#!/usr/bin/env python3
"""Regenerate /verif/MANIFEST.json from the table below."""
import json, os, sys
ROOT = os.path.dirname(os.path.dirname(os.path.abspath(__file__)))
TV = "translation_validation"
NOTE = ("Trusted: z3 (second z3 build as cross-check), CPython ast, clang-14 -O1 IR (C only), vt/refsem.py reference "
        "semantics, lemma library, literal canonicaliser. Reals not floats; program axis enumerated (bounded families), "
        "numeric inputs solver-quantified; every sat is replayed on the really executed artefact before VIOLATION.")
CHECKS = {
 "C01": (TV, "Per program of the bounded families, z3 proves for all real (t, states, parameters) in the per-slot domain that the emitted NumPy rhs/monitor_values slot equals the independent reference meaning of the model text; the program axis is enumerated, not solved.", "4/C01",
         "SMT translation validation: symbolic execution of emitted NumPy AST vs reference semantics, z3 QF_NRA after Ackermannisation"),
}
CHECKS.update({
 "C02": (TV, "Per program, the emitted C is compiled by gcc and clang in default mode, lowered by clang-14 to LLVM IR and executed symbolically; z3 proves each rhs/monitor/scheme/init slot equal to the reference meaning for all real inputs in the domain.", "4/C02",
         "SMT translation validation of emitted C through clang LLVM IR vs reference semantics (z3 QF_NRA/LIA)"),
 "C03": (TV, "Per program, every function of the module emitted with backend=jax is executed symbolically in the JAX dialect; z3 proves each returned entry equal to the reference and the returned array literal has the documented length; constructs jax.jit cannot trace are typed as errors.", "4/C03",
         "SMT translation validation of emitted JAX module AST vs reference semantics, output-length obligations"),
 "C05": (TV, "Per program and backend, z3 proves emitted explicit_euler[i] == states_i + dt*rhs[i] of the same module for all real inputs incl. dt, dt=0 gives the input, no store into inputs; all aliases generate the same body under the requested name.", "4/C05",
         "relational SMT equivalence of two emitted functions (scheme vs rhs) per backend"),
 "C06": (TV, "Per program, state, delta and backend, z3 proves the emitted generalized Rush-Larsen slot equals x+f/g(exp(g dt)-1) where |g|>delta and x+dt f where |g|<=delta or g==0, with g from an independent differentiator of the model text.", "4/C06",
         "SMT translation validation vs formula built from an independent symbolic differentiator; case split on |g| vs delta"),
 "C07": (TV, "Per model and every subset of states as stiff_states, z3 proves each hybrid slot equal to the generalized-RL slot (stiff) or the Euler slot (non-stiff) of the same emitted module for all real inputs.", "4/C07",
         "relational SMT equivalence between emitted hybrid, RL and Euler functions; subsets enumerated exhaustively"),
})
PENDING = {}
def main():
    props = [json.loads(l) for l in open(os.path.join(ROOT, "properties.jsonl"))]
    checks = []
    na = []
    for p in props:
        pid = p["id"]
        if pid in CHECKS:
            cat, text, ref, tech = CHECKS[pid]
            checks.append({
                "property_id": pid,
                "quick_cmd": f"./check {pid} --tier quick",
                "thorough_cmd": f"./check {pid} --tier thorough",
                "evidence_file": f"/verif/evidence/{pid}.json",
                "replay_cmd_template": f"./check {pid} --replay {{path}}",
                "engine": "vt",
                "level_claimed": {"category": cat, "text": text, "design_ref": ref},
                "level_note": NOTE,
                "technique": tech,
            })
        else:
            na.append({"property_id": pid, "reason": PENDING.get(pid, "check not yet built in this session (solver-based check planned, see DESIGN.md section 4)")})
    man = {
        "version": 1,
        "setup_cmd": "./setup.sh",
        "hooks": {"guard": "GOTRANX_VERIF", "enable": "none needed: checks import gotranx from /repo/src (editable install) and need no source hooks",
                  "baseline_off_cmd": "cd /repo && /venv/bin/python -m pytest -ra -q -p no:cacheprovider --timeout=900 --continue-on-collection-errors",
                  "source_commits": [], "add_only": True},
        "engines": [{"name": "vt", "path": "/verif/vt", "serves_properties": sorted(CHECKS),
                     "kind_free_text": "solver-based translation validation (z3) of really emitted NumPy/JAX/C artefacts + CrossHair on gotranx control logic"}],
        "checks": checks,
        "not_applicable": na,
        "notes": "See DESIGN.md. Exit 0 = held on everything explored; 1 = reproduced violation; 3 = harness error (inconclusive).",
    }
    json.dump(man, open(os.path.join(ROOT, "MANIFEST.json"), "w"), indent=1)
    print("checks:", [c["property_id"] for c in checks], "na:", len(na))
main()
