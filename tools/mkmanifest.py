#!/usr/bin/env python3
"""Regenerate /verif/MANIFEST.json from the table below."""
import json, os, sys
ROOT = os.path.dirname(os.path.dirname(os.path.abspath(__file__)))
TV = "translation_validation"
NOTE = ("Trusted: z3 (second z3 build as cross-check), CPython ast, clang-14 -O1 IR (C only), vt/refsem.py reference "
        "semantics, lemma library, literal canonicaliser. Reals not floats; program axis enumerated (bounded families), "
        "numeric inputs solver-quantified; every sat is replayed on the really executed artefact before VIOLATION.")
CHECKS = {
 "C01": (TV, "Per program of the bounded families, z3 proves for all real (t, states, parameters) in the per-slot domain that the emitted NumPy rhs/monitor_values slot equals the independent reference meaning of the model text; the program axis is enumerated, not solved.", "4/C01",
         "SMT translation validation: symbolic execution of emitted NumPy AST vs reference semantics, z3 QF_NRA after Ackermannisation"),
}
PENDING = {}
def main():
    props = [json.loads(l) for l in open(os.path.join(ROOT, "properties.jsonl"))]
    checks = []
    na = []
    for p in props:
        pid = p["id"]
        if pid in CHECKS:
            cat, text, ref, tech = CHECKS[pid]
            checks.append({
                "property_id": pid,
                "quick_cmd": f"./check {pid} --tier quick",
                "thorough_cmd": f"./check {pid} --tier thorough",
                "evidence_file": f"/verif/evidence/{pid}.json",
                "replay_cmd_template": f"./check {pid} --replay {{path}}",
                "engine": "vt",
                "level_claimed": {"category": cat, "text": text, "design_ref": ref},
                "level_note": NOTE,
                "technique": tech,
            })
        else:
            na.append({"property_id": pid, "reason": PENDING.get(pid, "check not yet built in this session (solver-based check planned, see DESIGN.md section 4)")})
    man = {
        "version": 1,
        "setup_cmd": "./setup.sh",
        "hooks": {"guard": "GOTRANX_VERIF", "enable": "none needed: checks import gotranx from /repo/src (editable install) and need no source hooks",
                  "baseline_off_cmd": "cd /repo && /venv/bin/python -m pytest -ra -q -p no:cacheprovider --timeout=900 --continue-on-collection-errors",
                  "source_commits": [], "add_only": True},
        "engines": [{"name": "vt", "path": "/verif/vt", "serves_properties": sorted(CHECKS),
                     "kind_free_text": "solver-based translation validation (z3) of really emitted NumPy/JAX/C artefacts + CrossHair on gotranx control logic"}],
        "checks": checks,
        "not_applicable": na,
        "notes": "See DESIGN.md. Exit 0 = held on everything explored; 1 = reproduced violation; 3 = harness error (inconclusive).",
    }
    json.dump(man, open(os.path.join(ROOT, "MANIFEST.json"), "w"), indent=1)
    print("checks:", [c["property_id"] for c in checks], "na:", len(na))
main()
