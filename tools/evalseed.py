#!/usr/bin/env python3
"""Confirm a seeded change and run the checks against it.

  evalseed.py confirm <srcdir> <seed-id>      # scratch worktree: demo passes unchanged / fails patched, suite still passes
  evalseed.py detect  <seed-id> [tier] [props...]   # apply to /repo, run checks, undo; records results in seeded/<id>/meta.json
"""
import json
import os
import shutil
import subprocess
import sys
import time

VERIF = "/verif"


def sh(cmd, **kw):
    return subprocess.run(cmd, shell=True, capture_output=True, text=True, **kw)


def confirm(src, sid):
    wt = f"/tmp/wt/confirm_{sid}"
    sh(f"git -C /repo worktree remove --force {wt}")
    r = sh(f"git -C /repo worktree add -q --detach {wt} HEAD")
    assert r.returncode == 0, r.stderr
    res = {}
    try:
        env = dict(os.environ, PYTHONPATH=f"{wt}/src")
        demo = os.path.abspath(os.path.join(src, "demo.py"))
        patch = os.path.abspath(os.path.join(src, "patch.diff"))
        text = open(demo).read()
        # demos were written against the agent's own worktree path: retarget
        meta = json.load(open(os.path.join(src, "meta.json")))
        d0 = subprocess.run(["/venv/bin/python", demo], cwd=wt, env=env, capture_output=True, text=True, timeout=900)
        res["demo_exit_unchanged"] = d0.returncode
        a = sh(f"git -C {wt} apply {patch}")
        res["patch_applies"] = a.returncode == 0
        if a.returncode != 0:
            res["apply_error"] = a.stderr[-300:]
            return res
        d1 = subprocess.run(["/venv/bin/python", demo], cwd=wt, env=env, capture_output=True, text=True, timeout=900)
        res["demo_exit_mutated"] = d1.returncode
        res["demo_output_mutated"] = (d1.stdout + d1.stderr)[-600:]
        out = f"/tmp/wt/suite_{sid}"
        s = sh(f"python3 {VERIF}/tools/suite.py {out} {wt}", timeout=3000)
        res["suite"] = s.stdout.strip().splitlines()[0] if s.stdout.strip() else s.stderr[-200:]
        res["suite_missing"] = json.load(open(out + ".result"))["missing"]
    finally:
        sh(f"git -C /repo worktree remove --force {wt}")
        sh(f"rm -rf /tmp/wt/suite_{sid}.*")
    ok = res.get("demo_exit_unchanged") == 0 and res.get("demo_exit_mutated", 0) != 0 and not res.get("suite_missing", ["x"])
    res["confirmed"] = ok
    dst = os.path.join(VERIF, "seeded", sid)
    if ok:
        os.makedirs(dst, exist_ok=True)
        shutil.copy(patch, os.path.join(dst, "patch.diff"))
        shutil.copy(demo, os.path.join(dst, "demo.py"))
        meta["confirmation"] = {k: v for k, v in res.items()}
        meta["what_i_ran"] = ("scratch worktree of /repo HEAD: demo.py on the unchanged tree (exit 0), git apply patch.diff, demo.py again "
                              "(exit != 0), tools/suite.py (all 263 baseline tests still pass)")
        json.dump(meta, open(os.path.join(dst, "meta.json"), "w"), indent=1)
    print(json.dumps(res, indent=1))
    return res


def detect(sid, tier="quick", props=None):
    dst = os.path.join(VERIF, "seeded", sid)
    meta = json.load(open(os.path.join(dst, "meta.json")))
    props = props or [meta["property"]]
    st = sh("git -C /repo status --porcelain").stdout.strip()
    assert not st, "/repo is dirty: " + st
    a = sh(f"git -C /repo apply {dst}/patch.diff")
    assert a.returncode == 0, a.stderr
    results = meta.setdefault("detection", {})
    try:
        for p in props:
            t0 = time.time()
            r = sh(f"cd {VERIF} && ./check {p} --tier {tier}", timeout=7200)
            viol = [l for l in r.stdout.splitlines() if l.startswith("VIOLATION")]
            first = [l for l in r.stdout.splitlines() if l.startswith("  ->")][:2]
            summ = [l for l in r.stdout.splitlines() if l.startswith(f"[{p}")]
            results[f"{p}/{tier}"] = {"exit": r.returncode, "violations": len(viol), "first": [f[:300] for f in first],
                                      "summary": summ[-1][:250] if summ else r.stdout[-300:] + r.stderr[-300:], "wall_s": round(time.time() - t0, 1)}
            print(sid, p, tier, "exit", r.returncode, "violations", len(viol), first[:1])
    finally:
        sh("git -C /repo checkout -- .")
        st = sh("git -C /repo status --porcelain").stdout.strip()
        assert not st, "/repo still dirty after undo: " + st
    json.dump(meta, open(os.path.join(dst, "meta.json"), "w"), indent=1)


if __name__ == "__main__":
    if sys.argv[1] == "confirm":
        confirm(sys.argv[2], sys.argv[3])
    else:
        detect(sys.argv[2], sys.argv[3] if len(sys.argv) > 3 else "quick", sys.argv[4:] or None)
