#!/usr/bin/env python3
"""addfinding.py fixed C02 <commit> "<what failed>" [key]   |   addfinding.py known C19 "<key>" "<description>" """
import json, sys
p = "/verif/known_findings.json"
d = json.load(open(p))
if sys.argv[1] == "fixed":
    _, _, prop, commit, what = sys.argv[:5]
    d["findings"].append({"property": prop, "status": "fixed", "commit": commit, "description": what,
                          "record": f"fixed: property={prop} {commit} {what}"})
else:
    _, _, prop, key, what = sys.argv[:5]
    d["findings"].append({"property": prop, "status": "known", "key": key, "description": what})
json.dump(d, open(p, "w"), indent=1)
