#!/usr/bin/env python3
"""Re-create seeded/<id>/patch.diff on the current /repo HEAD when later fix: commits touched the same lines.
  portseed.py            # all seeds that no longer apply
Uses a scratch worktree; a 3-way merge must be conflict-free and the demo must still fail patched / pass clean."""
import glob, json, os, subprocess, sys

def sh(c, **k):
    return subprocess.run(c, shell=True, capture_output=True, text=True, **k)

wt = "/tmp/wt/port"
sh(f"git -C /repo worktree remove --force {wt}")
ids = sys.argv[1:] or [os.path.basename(os.path.dirname(p)) for p in sorted(glob.glob("/verif/seeded/*/patch.diff"))]
todo = [i for i in ids if sh(f"git -C /repo apply --check /verif/seeded/{i}/patch.diff").returncode != 0]
if not todo:
    print("all seeds apply")
    sys.exit(0)
assert sh(f"git -C /repo worktree add -q --detach {wt} HEAD").returncode == 0
env = dict(os.environ, PYTHONPATH=f"{wt}/src")
try:
    for i in todo:
        d = f"/verif/seeded/{i}"
        r = sh(f"git -C {wt} apply --3way {d}/patch.diff")
        diff = sh(f"git -C {wt} diff HEAD").stdout
        if r.returncode != 0 or "<<<<<<<" in diff or not diff.strip():
            print(i, "CONFLICT - port by hand:", (r.stderr or "")[-200:].replace("\n", " "))
            sh(f"git -C {wt} reset -q --hard HEAD")
            continue
        d1 = subprocess.run(["/venv/bin/python", f"{d}/demo.py"], cwd=wt, env=env, capture_output=True, text=True, timeout=900).returncode
        sh(f"git -C {wt} reset -q --hard HEAD")
        d0 = subprocess.run(["/venv/bin/python", f"{d}/demo.py"], cwd=wt, env=env, capture_output=True, text=True, timeout=900).returncode
        if d1 != 0 and d0 == 0:
            open(f"{d}/patch.diff", "w").write(diff)
            m = json.load(open(f"{d}/meta.json"))
            m["ported"] = "patch.diff re-created on the later HEAD (fix commits touched the same lines); same edit, demo re-checked"
            json.dump(m, open(f"{d}/meta.json", "w"), indent=1)
            print(i, "ported (demo: clean 0, patched", d1, ")")
        else:
            print(i, f"NOT ported: demo clean={d0} patched={d1}")
finally:
    sh(f"git -C /repo worktree remove --force {wt}")
