#!/usr/bin/env python3
"""Run /repo's pinned suite and compare with BASELINE.json stable_pass. Usage: suite.py [logprefix]"""
import json
import subprocess
import sys
import xml.etree.ElementTree as ET

import os

out = sys.argv[1] if len(sys.argv) > 1 else "/tmp/suite"
repo = sys.argv[2] if len(sys.argv) > 2 else "/repo"
xml = out + ".xml"
env = dict(os.environ)
if repo != "/repo":
    env["PYTHONPATH"] = os.path.join(repo, "src")
subprocess.run(["/venv/bin/python", "-m", "pytest", "-ra", "-q", "-p", "no:cacheprovider", "--timeout=900",
                "--continue-on-collection-errors", f"--junitxml={xml}"], cwd=repo, env=env,
               stdout=open(out + ".log", "w"), stderr=subprocess.STDOUT)
base = json.load(open("/root/.vp/BASELINE.json"))
passed = set()
for tc in ET.parse(xml).getroot().iter("testcase"):
    bad = any(ch.tag in ("failure", "error", "skipped") for ch in tc)
    if not bad:
        passed.add(f"{tc.get('classname')}::{tc.get('name')}")
missing = [t for t in base["stable_pass"] if t not in passed]
print(f"passed={len(passed)} baseline={len(base['stable_pass'])} missing={len(missing)}")
for m in missing[:30]:
    print("  MISSING", m)
open(out + ".result", "w").write(json.dumps({"passed": len(passed), "missing": missing}))
