#!/usr/bin/env python3
"""Generate /verif/seeded/INDEX.md from seeded/*/meta.json."""
import glob, json, os
rows = []
for f in sorted(glob.glob("/verif/seeded/*/meta.json")):
    m = json.load(open(f))
    sid = os.path.basename(os.path.dirname(f))
    det = m.get("detection", {})
    caught = [k for k, v in det.items() if v.get("exit") == 1 and v.get("violations", 0) > 0]
    missed = [k for k, v in det.items() if v.get("exit") == 0]
    other = [f"{k}(exit {v.get('exit')})" for k, v in det.items() if v.get("exit") not in (0, 1)]
    if m.get("obsolete"):
        caught, missed, other = ["(obsolete: " + m["obsolete"][:140] + ")"], [], []
    rows.append((sid + (" (ported)" if m.get("ported") else ""), m.get("property"), m.get("title", "")[:90], (m.get("needs_to_manifest") or "")[:160].replace("\n", " "),
                 ", ".join(caught) or "-", ", ".join(missed + other) or "-"))
out = ["# Seeded changes", "",
       "Each directory holds `patch.diff` (applies to /repo HEAD with `git apply`), `demo.py` (exit 0 unchanged, non-zero with the patch)",
       "and `meta.json` (what it breaks, what it needs to manifest, how it was confirmed, which checks were run against it).",
       "All were produced by independent sub-agents that saw only the property text, and confirmed in a scratch worktree",
       "(demo passes unchanged / fails patched; the 263 baseline tests still pass with the patch) before being kept.", "",
       "| seed | property | change | needs to manifest | caught by | not caught by |", "|---|---|---|---|---|---|"]
for r in rows:
    out.append("| " + " | ".join(str(x).replace("|", "/") for x in r) + " |")
open("/verif/seeded/INDEX.md", "w").write("\n".join(out) + "\n")
print(len(rows), "seeds")
