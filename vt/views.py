"""Uniform symbolic + concrete views over one emitted module (NumPy, JAX, C)."""
from __future__ import annotations

import ctypes
import json
import math
import os
import subprocess
import sys
import tempfile

import z3

from . import pysym, irsym
from .pysym import ArtefactError, Unsupported
from .smt import Ctx


def split_inputs(inputs: dict):
    """inputs: names 's_x','p_a','m_v','t','dt' -> float"""
    s = {k[2:]: v for k, v in inputs.items() if k.startswith("s_")}
    p = {k[2:]: v for k, v in inputs.items() if k.startswith("p_")}
    m = {k[2:]: v for k, v in inputs.items() if k.startswith("m_")}
    return s, p, m, inputs.get("t", 0.0), inputs.get("dt", 0.0)


class HarnessCallError(Exception):
    """The harness could not even set up the real call (never an error of the artefact)."""


class PyView:
    def __init__(self, code: str, backend="numpy"):
        self.backend = backend
        self.code = code
        self.mod = pysym.ModuleInfo(code)
        self._ns = None

    # ---- structure
    def functions(self):
        return list(self.mod.funcs)

    def has(self, fn):
        return fn in self.mod.funcs

    def index_map(self, kind):
        return dict(self.mod.index_map(kind))

    def arg_names(self, fn):
        return self.mod.arg_names(fn)

    # ---- symbolic
    def sym(self, ctx: Ctx, fn: str, **kw):
        """-> (dict slot -> z3 term (column 0), length, executor)"""
        if fn in self.mod.donated:
            raise ArtefactError("InputDonated", f"{fn} is decorated with {self.mod.donated[fn]}: the call deletes the caller's array")
        if fn in self.mod.other_decorators:
            raise Unsupported(f"decorator {self.mod.other_decorators[fn]} on {fn}")
        jax = self.backend == "jax" and fn in self.mod.jit
        res, px = pysym.exec_function(ctx, self.mod, fn, jax_traced=jax, **kw)
        if not isinstance(res, pysym.Arr):
            raise ArtefactError("BadReturn", f"{fn} does not return an array")
        out = {}
        for j in range(res.length):
            v = res.get(j)
            if v is None:
                raise ArtefactError("UnsetRead", f"{fn} returns unset slot {j}")
            out[j] = v
        return out, res.length, px

    def sym_scalar(self, ctx, fn, **kw):
        out, n, px = self.sym(ctx, fn, **kw)
        return {j: ctx.real(v.cols[0]) for j, v in out.items()}, n, px

    # ---- concrete
    def namespace(self):
        if self._ns is None:
            if self.backend == "jax":
                raise RuntimeError("jax modules are executed in a subprocess")
            ns = {}
            exec(compile(self.code, "<emitted>", "exec"), ns)
            self._ns = ns
        return self._ns

    def _arrays(self, inputs):
        import numpy as np

        s, p, m, t, dt = split_inputs(inputs)
        smap, pmap, mmap = self.index_map("state"), self.index_map("parameter"), self.index_map("missing")

        def arr(mapping, vals):
            n = (max(mapping.values()) + 1) if mapping else 0
            a = np.zeros(n, dtype=np.float64)
            for k, i in mapping.items():
                a[i] = vals.get(k, 0.0)
            return a

        return {"states": arr(smap, s), "parameters": arr(pmap, p), "missing_variables": arr(mmap, m),
                "t": float(t), "dt": float(dt)}

    def concrete(self, fn, inputs):
        """Run the really emitted function at a concrete point -> list of floats (raises on error)."""
        if self.backend == "jax":
            return self.concrete_jax(fn, inputs)
        import numpy as np

        try:
            ns = self.namespace()
            A = self._arrays(inputs)
            names = self.arg_names(fn)
            f = ns[fn]
            if fn in ("init_state_values", "init_parameter_values"):
                args = []
            else:
                args = [A[a] for a in names]
        except Exception as e:
            if isinstance(e, (SyntaxError, NameError, ImportError)):
                raise   # the emitted module itself does not import
            raise HarnessCallError(f"{type(e).__name__}: {e}")
        with np.errstate(all="ignore"):
            res = f(*args)
        return [float(x) for x in np.asarray(res).ravel()]

    def concrete_jax(self, fn, inputs, disable_jit=False):
        A = self._arrays(inputs)
        payload = {"code": self.code, "fn": fn, "args": [A[a].tolist() if hasattr(A[a], "tolist") else A[a]
                                                           for a in self.arg_names(fn)],
                   "disable_jit": disable_jit}
        script = r"""
import json, sys
p = json.load(sys.stdin)
import jax
jax.config.update("jax_enable_x64", True)
if p["disable_jit"]:
    jax.config.update("jax_disable_jit", True)
import jax.numpy as jnp
ns = {}
exec(compile(p["code"], "<emitted>", "exec"), ns)
args = [jnp.array(a, dtype=jnp.float64) if isinstance(a, list) else a for a in p["args"]]
res = ns[p["fn"]](*args)
import numpy
# a caller may read its own arrays after the call (a donated buffer raises here)
for a in args:
    if hasattr(a, "shape"):
        numpy.asarray(a)
print("RESULT" + json.dumps([float(x) for x in numpy.asarray(res).ravel()]))
"""
        p = subprocess.run([sys.executable, "-c", script], input=json.dumps(payload), capture_output=True,
                           text=True, timeout=300, env={**os.environ, "JAX_PLATFORMS": "cpu"})
        for line in p.stdout.splitlines():
            if line.startswith("RESULT"):
                return json.loads(line[6:])
        raise RuntimeError("jax run failed: " + p.stderr[-800:])


class CView:
    backend = "c"

    def __init__(self, code: str):
        self.code = code
        self._tmp = tempfile.TemporaryDirectory(prefix="vt_c_", dir=os.environ.get("VT_SCRATCH", None))
        self.workdir = self._tmp.name
        self.compile_failures = irsym.compile_check(code, self.workdir)
        self.cm = irsym.CModule(code, self.workdir)
        self._lib = None

    def close(self):
        try:
            self._tmp.cleanup()
        except Exception:
            pass

    def functions(self):
        return self.cm.funcs()

    def has(self, fn):
        return fn in self.cm.ir.funcs

    def index_map(self, kind):
        return dict(self.cm.index_map(kind))

    def arg_names(self, fn):
        return list(self.cm.sigs[fn][0])

    def sym_scalar(self, ctx, fn, **kw):
        ex = self.cm.exec(ctx, fn)
        out = {}
        bad = [k for k in ex.stores if k[0] not in ("values", "states", "parameters") or
               (k[0] in ("states", "parameters") and fn not in ("init_state_values", "init_parameter_values"))]
        if bad:
            raise ArtefactError("InputMutation", f"{fn} stores through {bad[0][0]}[{bad[0][1]}]")
        target = {"init_state_values": "states", "init_parameter_values": "parameters"}.get(fn, "values")
        for (base, off), v in ex.stores.items():
            if base == target:
                out[off] = ctx.real(v)
        n = (max(out) + 1) if out else 0
        return out, n, ex

    def lib(self):
        if self._lib is None:
            so = os.path.join(self.workdir, "model.so")
            src = os.path.join(self.workdir, "model_so.c")
            with open(src, "w") as f:
                f.write(self.code)
            p = subprocess.run(["gcc", "-shared", "-fPIC", "-O0", "-o", so, src, "-lm"], capture_output=True, text=True)
            if p.returncode != 0:
                raise RuntimeError("gcc failed: " + p.stderr[:500])
            self._lib = ctypes.CDLL(so)
        return self._lib

    def concrete(self, fn, inputs, n_out=None):
        s, p, m, t, dt = split_inputs(inputs)
        lib = self.lib()
        smap, pmap, mmap = self.index_map("state"), self.index_map("parameter"), self.index_map("missing")

        def arr(mapping, vals, extra=0):
            n = (max(mapping.values()) + 1) if mapping else 0
            a = (ctypes.c_double * max(n + extra, 1))()
            for k, i in mapping.items():
                a[i] = vals.get(k, 0.0)
            return a

        if n_out is None:
            n_out = max(len(smap), len(self.index_map("monitor")), len(pmap)) + 4
        values = (ctypes.c_double * n_out)(*([float("nan")] * n_out))
        A = {"states": arr(smap, s), "parameters": arr(pmap, p), "missing_variables": arr(mmap, m),
             "t": ctypes.c_double(float(t)), "dt": ctypes.c_double(float(dt)), "values": values}
        f = getattr(lib, fn)
        f.restype = None
        names = self.arg_names(fn)
        if fn in ("init_state_values", "init_parameter_values"):
            f(values)
        else:
            f(*[A[a] for a in names])
        return [float(x) for x in values]
