"""Obligations, replay-before-report, aggregation, evidence, known findings."""
from __future__ import annotations

import hashlib
import json
import math
import multiprocessing as mp
import os
import signal
import sys
import time
import traceback
from fractions import Fraction

import z3

from . import smt
from .smt import Ctx, Stats
from .pysym import ArtefactError, Unsupported

ROOT = os.path.dirname(os.path.dirname(os.path.abspath(__file__)))
KNOWN_PATH = os.path.join(ROOT, "known_findings.json")
REL_TOL = 1e-9


def text_id(text: str, opts=None) -> str:
    h = hashlib.sha1()
    h.update(text.encode())
    if opts:
        h.update(json.dumps(opts, sort_keys=True, default=str).encode())
    return h.hexdigest()[:10]


def fl(q) -> float:
    if isinstance(q, Fraction):
        return smt.frac_to_float(q)
    return float(q)


def differs(gen, ref, tol=REL_TOL) -> bool:
    """Concrete disagreement beyond rounding. gen: float, ref: float/mpf."""
    try:
        r = float(ref)
    except Exception:
        return False
    if r != r or math.isinf(r):
        return False
    if gen != gen or math.isinf(gen):
        return abs(r) < 1e100
    return abs(gen - r) > tol * (1 + abs(r))


def refsem_near_ties():
    from . import refsem
    return list(refsem.NEAR_TIES)


def del_near_ties():
    from . import refsem
    del refsem.NEAR_TIES[:]


class Prog:
    """Per-program checking context (one worker task)."""

    def __init__(self, prop: str, task: dict, timeout_ms=10000, second_every=20):
        self.prop = prop
        self.task = task
        self.ctx = Ctx()
        self.stats = Stats()
        self.timeout_ms = timeout_ms
        self.obligations = 0
        self.discharged = 0
        self.violations = []
        self.unreproduced = []
        self.inconclusive = []
        self.samples = []
        self.notes = []
        self.second_every = second_every
        self.nontrivial = False
        self.validate_encoders = True
        self._validated = set()
        self.pid = task.get("id") or text_id(task.get("text", ""), task.get("opts"))
        self.family = task.get("family", "?")

    # ---- helpers
    def key(self, label):
        return f"{self.prop}|{self.family}:{self.pid}|{label}"

    def _second(self):
        return (self.obligations % self.second_every) == 0

    def float_inputs(self, model):
        return {k: fl(v) for k, v in model.items() if k not in ("PI", "__strings__")}

    def _robust_model(self, hyps, gen, ref):
        """Ask for a well-separated, boxed witness (replay-friendly)."""
        try:
            box = [z3.And(v >= -100, v <= 100) for v in self.ctx.inputs.values()]
            d = gen - ref
            margin = z3.Or(d > z3.RealVal("1/1000") * (1 + self.ctx.abs(ref)),
                           -d > z3.RealVal("1/1000") * (1 + self.ctx.abs(ref)))
            v, m, _ = smt.check(self.ctx, list(hyps) + box, margin, timeout_ms=min(self.timeout_ms, 5000))
            if v == "sat":
                return m
        except Exception:
            pass
        return None

    def record_sample(self, label, verdict, info, extra=None):
        if len(self.samples) < 3:
            s = {"program": self.pid, "family": self.family, "obligation": label, "verdict": verdict,
                 "ms": info.get("ms"), "side_constraints": info.get("side")}
            if "text" in self.task and len(self.task["text"]) < 1500:
                s["model_text"] = self.task["text"]
            if extra:
                s.update(extra)
            self.samples.append(s)

    # ---- obligations
    def eq(self, label, hyps, gen, ref, gen_eval=None, ref_eval=None, what=""):
        """Obligation: hyps |= gen == ref (reals).  On sat: replay with the
        concrete evaluators before anything is reported."""
        c = self.ctx
        self.obligations += 1
        gen = c.real(gen)
        ref = c.real(ref)
        try:
            v, model, info = smt.check(c, hyps, gen != ref, timeout_ms=self.timeout_ms, stats=self.stats,
                                       second_opinion=self._second())
        except z3.Z3Exception as e:
            self.inconclusive.append({"key": self.key(label), "why": f"z3: {e}"})
            return "unknown"
        self.record_sample(label, v, info)
        if v == "unsat":
            self.discharged += 1
            return v
        if v == "unknown":
            self.inconclusive.append({"key": self.key(label), "why": "solver unknown/timeout"})
            return v
        # sat -> replay
        return self._replay_sat(label, hyps, gen, ref, model, gen_eval, ref_eval, what)

    def _replay_sat(self, label, hyps, gen, ref, model, gen_eval, ref_eval, what):
        if len(self.violations) >= 12:
            # this program already has a dozen reproduced violations: further replays (each may start a jax subprocess or
            # load a shared library) only risk the task's wall limit, which would turn the whole program inconclusive
            self.unreproduced.append({"key": self.key(label), "what": what, "tried": [{"why": "not replayed: 12 violations of this program already reproduced"}]})
            return "unreproduced"
        tried = []
        models = []
        rm = None if os.environ.get("VT_NO_ROBUST") else self._robust_model(hyps, gen, ref)
        if rm is not None:
            models.append(rm)
        models.append(model)
        cands = []
        for m in models:
            cands.append(self.float_inputs(m))
        # The solver's witness is a rational; rounding it to the nearest double can leave the region where the two sides
        # differ when that region is only a few ulp wide (an equality replaced by "within DBL_EPSILON", a tolerance of
        # 1e-12).  Any concrete disagreement inside the domain is a genuine violation, wherever it was found, so the
        # neighbouring doubles of every inexactly representable coordinate are tried as well (one coordinate at a time).
        for m in models[-1:]:
            base = self.float_inputs(m)
            for k, v in m.items():
                if k in base and isinstance(v, Fraction) and Fraction(base[k]) != v:
                    for other in (math.nextafter(base[k], math.inf), math.nextafter(base[k], -math.inf)):
                        if len(cands) < 14:
                            cands.append(dict(base, **{k: other}))
        for inputs in cands:
            try:
                del_near_ties()
                rv = ref_eval(inputs) if ref_eval else None
                ties = refsem_near_ties()
                from . import refsem as _rs0
                ext = (_rs0.EXTREME[0], _rs0.EXTREME[1])
            except Exception as e:
                tried.append({"inputs": inputs, "ref_error": repr(e)[:200]})
                continue
            try:
                gv = gen_eval(inputs) if gen_eval else None
            except Exception as e:
                # the emitted code raised at a point where the reference of THIS slot is defined; the function computes
                # every quantity of the model, so the whole model has to be defined there (the property's premise)
                rm = getattr(self, "refmodel", None)
                if rm is not None:
                    from . import refsem as _rs
                    from .checks import env_from_inputs
                    try:
                        for a in rm.assigns.values():
                            _rs.numeric(a, env_from_inputs(rm, inputs), rm)
                    except Exception as e2:
                        tried.append({"inputs": inputs, "why": f"emitted code raised {e!r}, but the model is not defined everywhere at this point ({e2!r})"[:300]})
                        continue
                rec = self._violation(label, "exception-at-witness", f"{what}: emitted code raised {e!r}"[:400],
                                      {"inputs": inputs, "ref": float(rv) if rv is not None else None})
                return "sat"
            if gv is None or rv is None:
                tried.append({"inputs": inputs, "why": "no concrete evaluator"})
                continue
            if differs(gv, rv) and not ties and (gv != gv or math.isinf(gv)):
                if ext[0] > 1e150 or ext[1] < 1e-150:
                    ties = ["overflow-prone: an intermediate value of the reference has magnitude %.3g / %.3g" % (float(ext[0]), float(ext[1]))]
            if differs(gv, rv) and not ties and ref_eval is not None:
                # conditioning probe: the reference evaluated in 53-bit arithmetic must agree with its 50-digit value,
                # otherwise the point is ill-conditioned for doubles (cancellation, a pole, log near 0) and a double
                # evaluation of ANY correct artefact may be off by more than the tolerance there
                from . import refsem as _rs
                try:
                    _rs.FORCE_BITS[0] = 53
                    rv53 = ref_eval(inputs)
                    if rv53 is None or differs(float(rv53), rv, tol=REL_TOL / 100):
                        ties = ["ill-conditioned: 53-bit reference %r vs %r" % (float(rv53) if rv53 is not None else None, float(rv))]
                except Exception as e:
                    ties = [f"ill-conditioned: 53-bit reference evaluation raised {e!r}"[:160]]
                finally:
                    _rs.FORCE_BITS[0] = None
            if differs(gv, rv) and not ties:
                ties = self._model_conditioning(inputs)
            if differs(gv, rv) and not ties and abs(float(rv)) > 1e15:
                # only exp / powers of inputs bounded by 100 reach this size; the relative rounding error of their
                # arguments (1e-16 * 1e2..1e4) is amplified beyond the replay tolerance
                ties = ["magnitude %.3g: conditioning of exp / pow at this size exceeds the replay tolerance" % float(rv)]
            if differs(gv, rv) and ties:
                # the reference itself sits within 1e-9 of a discontinuity (comparison / floor) at this point without
                # being on it: double rounding may legitimately pick the other side, the point confirms nothing
                tried.append({"inputs": inputs, "emitted": gv, "reference": float(rv), "near_tie": ties[:3]})
                continue
            if differs(gv, rv):
                self._violation(label, "value-mismatch",
                                f"{what}: emitted={gv!r} reference={float(rv)!r}",
                                {"inputs": inputs, "emitted": gv, "reference": float(rv)})
                return "sat"
            tried.append({"inputs": inputs, "emitted": gv, "reference": float(rv)})
        self.unreproduced.append({"key": self.key(label), "what": what, "tried": tried[:2]})
        return "unreproduced"

    def _model_conditioning(self, inputs):
        """Relational obligations compare two really executed artefacts, so the probes above (which watch the
        reference evaluator of the slot) see nothing.  Here every assignment of the reference model is evaluated
        at the witness: a near-tie in any comparison / floor, or a 53-bit value that differs from the 50-digit
        one, marks the point as numerically unreliable for doubles."""
        rm = getattr(self, "refmodel", None)
        if rm is None:
            return []
        from . import refsem as _rs
        from .checks import env_from_inputs
        out = []
        try:
            env = env_from_inputs(rm, inputs)
        except Exception:
            return []
        for name, a in rm.assigns.items():
            try:
                _rs.FORCE_BITS[0] = None
                hi = _rs.numeric(a, env, rm)
                if _rs.NEAR_TIES:
                    out.append(f"{name}: {_rs.NEAR_TIES[0]}")
                    break
                _rs.FORCE_BITS[0] = 53
                lo = _rs.numeric(a, env, rm)
                if differs(float(lo), hi, tol=REL_TOL / 100):
                    out.append(f"{name}: ill-conditioned (53-bit {float(lo)!r} vs {float(hi)!r})")
                    break
                if abs(hi) > 1e15:
                    out.append(f"{name}: magnitude {float(hi):.3g} (rounding of the inputs of a later difference exceeds the tolerance)")
                    break
            except Exception:
                continue
            finally:
                _rs.FORCE_BITS[0] = None
        return out

    def holds(self, label, hyps, goal, confirm=None, what=""):
        """Obligation: hyps |= goal (a Bool).  confirm(inputs) -> (bool reproduced, detail)."""
        self.obligations += 1
        try:
            v, model, info = smt.check(self.ctx, hyps, z3.Not(goal), timeout_ms=self.timeout_ms, stats=self.stats,
                                       second_opinion=self._second())
        except z3.Z3Exception as e:
            self.inconclusive.append({"key": self.key(label), "why": f"z3: {e}"})
            return "unknown"
        self.record_sample(label, v, info)
        if v == "unsat":
            self.discharged += 1
            return v
        if v == "unknown":
            self.inconclusive.append({"key": self.key(label), "why": "solver unknown/timeout"})
            return v
        inputs = self.float_inputs(model)
        if confirm is not None:
            try:
                ok, detail = confirm(inputs, model)
            except Exception as e:
                ok, detail = False, f"confirm raised {e!r}"
            if ok:
                self._violation(label, "property-false", f"{what}: {detail}"[:400], {"inputs": inputs})
                return "sat"
            self.unreproduced.append({"key": self.key(label), "what": what, "tried": [{"inputs": inputs, "detail": str(detail)[:200]}]})
            return "unreproduced"
        self.unreproduced.append({"key": self.key(label), "what": what, "tried": [{"inputs": inputs}]})
        return "unreproduced"

    def fact(self, label, ok: bool, kind, detail, replay=None):
        """A concretely observed obligation (structure of the artefact, real exception...)."""
        self.obligations += 1
        if ok:
            self.discharged += 1
            return True
        self._violation(label, kind, detail, replay or {})
        return False

    def structural(self, label, err: Exception, confirm=None):
        """An ArtefactError from symbolic execution: replay concretely, then report."""
        self.obligations += 1
        detail = str(err)
        if confirm is not None:
            try:
                ok, d2 = confirm()
            except Exception as e:
                ok, d2 = False, f"confirm raised {e!r}"
            if not ok:
                self.unreproduced.append({"key": self.key(label), "what": detail, "tried": [{"detail": str(d2)[:300]}]})
                return
            detail += " | replay: " + str(d2)[:300]
        self._violation(label, getattr(err, "kind", type(err).__name__), detail, {})

    def _violation(self, label, kind, detail, data):
        rec = {"property": self.prop, "key": self.key(label), "kind": kind, "detail": detail,
               "task": self.task, "data": data}
        self.violations.append(rec)
        return rec

    def skip(self, label, why):
        self.inconclusive.append({"key": self.key(label), "why": why})

    def result(self):
        return {
            "pid": self.pid, "family": self.family, "obligations": self.obligations, "discharged": self.discharged,
            "violations": self.violations, "unreproduced": self.unreproduced, "inconclusive": self.inconclusive,
            "samples": self.samples, "stats": self.stats.as_dict(), "errors": self.stats.errors,
            "nontrivial": self.nontrivial, "notes": self.notes,
        }


# ----------------------------------------------------------------------------
# pool runner
# ----------------------------------------------------------------------------
class _Timeout(BaseException):
    """Task wall limit (SIGALRM).  A BaseException, so that the drivers' `except Exception` blocks around real calls
    cannot mistake the harness's own alarm for a failure of the artefact."""


_ALARM_FIRED = [False]


def _alarm(signum, frame):
    _ALARM_FIRED[0] = True
    raise _Timeout()


def _guarded(args):
    work, task, limit = args
    t0 = time.time()
    signal.signal(signal.SIGALRM, _alarm)
    _ALARM_FIRED[0] = False
    signal.alarm(limit)
    try:
        r = work(task)
        r["wall"] = time.time() - t0
        return r
    except BaseException as e:
        # the alarm may fire inside a ctypes callback (z3), which re-wraps _Timeout as ctypes.ArgumentError
        if isinstance(e, _Timeout) or _ALARM_FIRED[0]:
            why = f"task wall limit {limit}s"
        else:  # harness bug: reported, never silently passed
            why = ("harness exception: " + "".join(traceback.format_exception_only(type(e), e))[-300:] +
                   traceback.format_exc()[-600:])
        return {"pid": task.get("id", "?"), "family": task.get("family", "?"), "obligations": 0, "discharged": 0,
                "violations": [], "unreproduced": [], "samples": [], "stats": {}, "errors": [], "nontrivial": False,
                "inconclusive": [{"key": f"task:{task.get('id','?')}", "why": why}],
                "wall": time.time() - t0, "notes": []}
    finally:
        signal.alarm(0)


def run_pool(work, tasks, procs=None, task_limit=120):
    procs = procs or min(16, os.cpu_count() or 4)
    if not tasks:
        return []
    ctx = mp.get_context("fork")
    out = []
    with ctx.Pool(procs, maxtasksperchild=50) as pool:
        for r in pool.imap_unordered(_guarded, [(work, t, task_limit) for t in tasks], chunksize=1):
            out.append(r)
    return out


# ----------------------------------------------------------------------------
# known findings
# ----------------------------------------------------------------------------
def load_known():
    try:
        with open(KNOWN_PATH) as f:
            return json.load(f)
    except FileNotFoundError:
        return {"findings": []}


def known_keys(prop):
    kf = load_known()
    return {e["key"]: e for e in kf["findings"] if e["property"] == prop and e.get("status") == "known"}


def witness_tasks(prop):
    """Deterministic witness programs of known / fixed findings for this property."""
    out = []
    seen = set()
    for e in load_known()["findings"]:
        if e["property"] != prop or "witness" not in e:
            continue
        t = dict(e["witness"])
        k = json.dumps(t, sort_keys=True)
        if k in seen:
            continue
        seen.add(k)
        out.append(t)
    return out


# ----------------------------------------------------------------------------
# aggregation + evidence + exit code
# ----------------------------------------------------------------------------
def finish(prop, tier, seed, level, results, t0, rule, functions_encoded, bounds, assumptions,
           explanation="", extra_cov=None, exhaustive=False, min_discharged=1):
    os.makedirs(os.path.join(ROOT, "evidence"), exist_ok=True)
    rdir = os.path.join(ROOT, "replays", prop)
    os.makedirs(rdir, exist_ok=True)
    total = Stats()
    agg = {"obligations": 0, "discharged": 0}
    violations, unrepro, inconc, samples, errors = [], [], [], [], []
    nontrivial = set()
    fam_count = {}
    enc_valid = 0
    for r in results:
        enc_valid += sum(1 for n in r.get("notes", []) if isinstance(n, dict) and "encoder_validated" in n)
        agg["obligations"] += r["obligations"]
        agg["discharged"] += r["discharged"]
        violations += r["violations"]
        unrepro += r["unreproduced"]
        inconc += r["inconclusive"]
        errors += r.get("errors", [])
        fam_count[r["family"]] = fam_count.get(r["family"], 0) + 1
        if r.get("nontrivial"):
            nontrivial.add(r["pid"])
        for s in r["samples"]:
            if len(samples) < 5 and (not samples or samples[-1].get("family") != s.get("family") or len(samples) < 2):
                samples.append(s)
        st = r.get("stats") or {}
        for k in ("queries", "unsat", "sat", "unknown", "second_opinion", "second_disagree"):
            setattr(total, k, getattr(total, k) + st.get(k, 0))
        total.solver_s += st.get("solver_s", 0.0)
    known = known_keys(prop)
    new_viol, known_hit = [], []
    seen_keys = set()
    for v in violations:
        if v["key"] in seen_keys:
            continue
        seen_keys.add(v["key"])
        if v["key"] in known:
            known_hit.append(v)
        else:
            new_viol.append(v)
    lines = []
    for v in known_hit:
        lines.append(f"KNOWN-FINDING: property={prop} {known[v['key']].get('description', v['detail'])} [{v['key']}]")
    for i, v in enumerate(new_viol):
        path = os.path.join(rdir, f"{text_id(v['key'])}.json")
        with open(path, "w") as f:
            json.dump(v, f, indent=1, default=str)
        lines.append(f"VIOLATION property={prop} replay={path}")
        lines.append(f"  -> {v['kind']}: {v['detail'][:300]} [{v['key']}]")
    wall = time.time() - t0
    harness_errors = list(errors)
    n_tasks = len(results)
    if agg["discharged"] < min_discharged and not new_viol:
        harness_errors.append("no obligation was discharged")
    if total.second_disagree:
        harness_errors.append("solver disagreement between z3 5.1 and z3 4.8.12")
    crashed = [i for i in inconc if i["key"].startswith("task:") and "harness exception" in i["why"]]
    if crashed and not new_viol:
        harness_errors.append(f"{len(crashed)} task(s) crashed inside the harness (first: {crashed[0]['why'][:200]})")
    inconc_tasks = len({i["key"] for i in inconc})
    if agg["obligations"] and inconc_tasks > 0.2 * max(agg["obligations"], 1) and not new_viol:
        harness_errors.append(f"{inconc_tasks} inconclusive obligations exceed 20% of {agg['obligations']}")
    if not samples:
        samples = [{"note": "no obligation reached", "tasks": n_tasks}]
    cov = {
        "programs": max(n_tasks, 0),
        "evaluations": n_tasks,
        "distinct_nontrivial": len(nontrivial),
        "rule": rule,
        "obligations": agg["obligations"],
        "discharged": agg["discharged"],
        "disagreements_checked": total.sat,
        "samples": samples,
        "explanation": explanation,
        "exhaustive": exhaustive,
        "functions_encoded": functions_encoded,
        "bounds": bounds,
        "families": fam_count,
        "solver": {**total.as_dict(), "engine": "z3 " + z3.get_version_string() + " (in-process), second opinion /usr/bin/z3 4.8.12"},
        "encoder_validations": enc_valid,
        "unreproduced_sat": len(unrepro),
        "unreproduced_examples": unrepro[:3],
        "inconclusive": len(inconc),
        "inconclusive_examples": inconc[:5],
        "known_findings_hit": [v["key"] for v in known_hit],
        "harness_errors": harness_errors[:10],
        "trusted_base": ["z3", "CPython ast", "clang-14 -O1 IR (C only)", "vt/refsem.py reference semantics",
                         "vt lemma library (smt.py)", "literal canonicaliser kappa"],
        "repo_head": _repo_head(),
    }
    if extra_cov:
        cov.update(extra_cov)
    ev = {"property_id": prop, "tier": tier, "seed": int(seed), "level": level, "coverage": cov,
          "assumptions": assumptions, "wall_s": round(wall, 2), "violations": len(new_viol)}
    with open(os.path.join(ROOT, "evidence", f"{prop}.json"), "w") as f:
        json.dump(ev, f, indent=1, default=str)
    for l in lines:
        print(l)
    print(f"[{prop}/{tier}] programs={n_tasks} obligations={agg['obligations']} discharged={agg['discharged']} "
          f"sat={total.sat} unreproduced={len(unrepro)} inconclusive={len(inconc)} known={len(known_hit)} "
          f"violations={len(new_viol)} nontrivial={len(nontrivial)} solver_s={total.solver_s:.1f} wall={wall:.1f}s")
    for i in inconc[:5]:
        print("  inconclusive:", i["key"], "-", i["why"][:200].replace("\n", " "))
    for u in unrepro[:5]:
        print("  unreproduced-sat:", u["key"], "-", str(u.get("what"))[:120])
    if new_viol:
        return 1
    if harness_errors:
        for h in harness_errors[:5]:
            print("HARNESS-ERROR:", h[:300])
        return 3
    return 0


def _repo_head():
    import subprocess

    try:
        h = subprocess.run(["git", "-C", "/repo", "rev-parse", "--short", "HEAD"], capture_output=True, text=True).stdout.strip()
        d = subprocess.run(["git", "-C", "/repo", "status", "--porcelain"], capture_output=True, text=True).stdout.strip()
        return h + ("+dirty" if d else "")
    except Exception:
        return "unknown"
