"""E6 - CrossHair runner: symbolic execution of gotranx's own control logic with z3."""
from __future__ import annotations

import os
import re
import subprocess
import sys
import tempfile
import time


def run_crosshair(source: str, timeout_s=60, per_path_timeout=None, cwd=None):
    """Write `source` to a scratch file, run `crosshair check --report_all`, and
    return a list of {function, verdict, message, args} per condition.

    verdict in {'confirmed', 'counterexample', 'not_confirmed', 'precondition', 'error'}.
    """
    with tempfile.TemporaryDirectory(prefix="vt_xh_") as d:
        path = os.path.join(d, "harness.py")
        with open(path, "w") as f:
            f.write(source)
        cmd = [sys.executable, "-m", "crosshair", "check", "--report_all",
               "--per_condition_timeout", str(timeout_s)]
        if per_path_timeout:
            cmd += ["--per_path_timeout", str(per_path_timeout)]
        cmd.append(path)
        env = dict(os.environ)
        env["PYTHONPATH"] = "/verif" + (":" + env["PYTHONPATH"] if env.get("PYTHONPATH") else "")
        t0 = time.time()
        try:
            p = subprocess.run(cmd, capture_output=True, text=True, timeout=timeout_s * 8 + 120, env=env, cwd=cwd or d)
            out = p.stdout + p.stderr
        except subprocess.TimeoutExpired as e:
            out = (e.stdout or "") + (e.stderr or "") if isinstance(e.stdout, str) else ""
            return [{"function": "?", "verdict": "not_confirmed", "message": "crosshair wall timeout", "raw": out[-500:],
                     "wall": time.time() - t0}]
        lines = source.splitlines()
        res = []
        for line in out.splitlines():
            m = re.match(r"^(.*?):(\d+): (error|info|warning): (.*)$", line)
            if not m:
                continue
            ln, kind, msg = int(m.group(2)), m.group(3), m.group(4)
            fn = "?"
            for k in range(min(ln, len(lines)) - 1, -1, -1):
                mm = re.match(r"^def (\w+)\(", lines[k])
                if mm:
                    fn = mm.group(1)
                    break
            if "Confirmed over all paths" in msg:
                v = "confirmed"
            elif "Not confirmed" in msg:
                v = "not_confirmed"
            elif "Unable to meet precondition" in msg:
                v = "precondition"
            elif kind == "error" and ("when calling" in msg or "false when" in msg):
                v = "counterexample"
            elif kind == "error":
                v = "error"
            else:
                v = "not_confirmed"
            call = None
            mm = re.search(r"when calling (\w+\(.*?\))(?: \(which|\s*$)", msg)
            if mm:
                call = mm.group(1)
            res.append({"function": fn, "verdict": v, "message": msg[:600], "call": call, "wall": time.time() - t0})
        if not res:
            res.append({"function": "?", "verdict": "error", "message": "no crosshair verdict: " + out[-600:], "wall": time.time() - t0})
        return res


def run_concrete(source: str, call: str, timeout_s=120, env_extra=None):
    """Evaluate `call` (e.g. 'f(1, 0)') against the harness source in a fresh interpreter.
    Returns (ok, repr_or_error)."""
    with tempfile.TemporaryDirectory(prefix="vt_xr_") as d:
        path = os.path.join(d, "harness.py")
        with open(path, "w") as f:
            f.write(source)
            f.write(f"\n\nif __name__ == '__main__':\n    print('RESULT', repr({call}))\n")
        env = dict(os.environ)
        env["PYTHONPATH"] = "/verif" + (":" + env["PYTHONPATH"] if env.get("PYTHONPATH") else "")
        if env_extra:
            env.update(env_extra)
        p = subprocess.run([sys.executable, path], capture_output=True, text=True, timeout=timeout_s, env=env, cwd=d)
        for line in p.stdout.splitlines():
            if line.startswith("RESULT "):
                return True, line[7:]
        return False, (p.stderr or p.stdout)[-500:]
