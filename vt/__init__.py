"""Solver-based translation validation of finsberg/gotranx (see /verif/DESIGN.md)."""
