"""E1b - GEN: grammar-directed program generator (DESIGN 2.2, section 11).

The hand-made families of vt/families.py each vary one axis.  GEN varies all of them at once:
every production of the documented expression grammar, dependency shape, component grouping,
unused definitions, parameter-value expressions, annotations, literal spellings, text order.
It is a *deterministic universe*: program i is a pure function of i (its own `random.Random`),
so VERIF_SEED only chooses which indices the quick tier runs; thorough runs a fixed prefix.

Every program is well formed by construction (each state has one derivative, no cycles, every
name defined once).  `profile` trades breadth for solver effort:

  full    every production (elementary functions, Mod/floor, conditionals, ContinuousConditional)
  std     exp log ln sqrt sin cos atan abs + Conditional / And / Or / Not / all relationals (no floor, Mod, tan, asin, acos,
          ContinuousConditional: their poles, jumps and cancellations make double-precision replay points unreliable)
  smooth  no floor/Mod/ContinuousConditional (differentiator domain of C06/C07/C20)
  poly    + - * / integer powers only (fast; used where many artefacts are generated per program)
"""
from __future__ import annotations

import random

from .core import text_id

STATE_NAMES = ["x", "y", "z", "V", "m", "h", "n", "Ca_i", "u1", "w"]
PARAM_NAMES = ["a", "b", "c", "g_Na", "k1", "tau", "E_K", "p0", "r", "s2"]
INTER_NAMES = ["i0", "i1", "alpha_m", "beta_m", "I_Na", "m_inf", "tmp", "q_", "J", "rate", "f2", "AA"]
# names that exercise the printers' renaming (reserved words / library names) - all legal identifiers
ODD_NAMES = ["lambda", "beta", "gamma", "N", "S", "Q", "I", "E", "in", "is", "len", "double", "float", "int", "exp_", "pi_", "x_", "_u"]

INT_LITS = ["0", "1", "2", "3", "4", "5", "10", "7"]
DEC_LITS = ["0.5", "0.25", "1.5", "2.0", "0.1", "0.2", "3.75", "1.0", "12.5", "0.125", "100.0"]
SCI_LITS = ["1e-3", "2.5E+4", "1e2", "5e-1", "1.5e3", "2E-2", "1e0"]

UNITS = ["mV", "ms", "mM", "uA/uF", "1/ms", "nS/pF", "1"]
DESCS = ["", "membrane potential", "rate constant", "x", "gate (fast)"]


class G:
    def __init__(self, rng, profile, names_state, names_param, t_ok=True):
        self.r = rng
        self.profile = profile
        self.states = names_state
        self.params = names_param
        self.t_ok = t_ok
        self.used = set()

    # ---- leaves
    def lit(self, positive=False, nonzero=False):
        r = self.r
        k = r.random()
        pool = INT_LITS if k < 0.45 else DEC_LITS if k < 0.85 else SCI_LITS
        s = r.choice(pool)
        if nonzero or positive:
            while float(s) == 0.0:
                s = r.choice(pool)
        return s

    def name(self, avail):
        n = self.r.choice(avail)
        self.used.add(n)
        return n

    def leaf(self, avail):
        k = self.r.random()
        if k < 0.68 and avail:
            return self.name(avail)
        if k < 0.92:
            return self.lit()
        if k < 0.96 and self.t_ok:
            return self.r.choice(["t", "time"])
        return "pi" if self.profile != "poly" else self.lit()

    def has_name(self, text, avail):
        import re
        toks = set(re.findall(r"[A-Za-z_]\w*", text))
        return bool(toks & set(avail)) or bool(toks & {"t", "time"})

    @staticmethod
    def zero_branch(text):
        """A Conditional with a literal 0 branch: as a divisor / under a negative power it is 1/0 on that branch
        (sympy folds it to zoo when intermediates are substituted) - kept out of those positions."""
        import re
        return "Conditional(" in text and re.search(r",\s*-?0(\.0)?\s*[,)]", text) is not None

    def var_expr(self, d, avail, tries=6):
        """An expression that depends on at least one model quantity (never constant-only): arguments of
        domain-restricted functions, bases of fractional powers, operands of comparisons."""
        for _ in range(tries):
            e, p = self.expr(d, avail)
            if self.has_name(e, avail):
                return e, p
        if avail:
            return self.name(avail), 4
        return self.r.choice(["t", "time"]) if self.t_ok else "0.5", 4

    # ---- expressions; returns (text, precedence) with precedence: 0 add, 1 mul, 2 unary, 3 power, 4 atom
    def expr(self, d, avail):
        r = self.r
        if d <= 0 or r.random() < 0.18:
            return self.leaf(avail), 4
        k = r.random()
        prof = self.profile
        if k < 0.42:
            op = r.choice(["+", "-", "*", "/", "+", "-", "*"])
            a, pa = self.expr(d - 1, avail)
            b, pb = self.expr(d - 1, avail)
            if op == "-" and a == b:
                # x - x is identically zero (sympy folds it when intermediates are substituted): log / division by it
                # elsewhere makes the model undefined for every input
                b, pb = self.lit(nonzero=True), 4
            if op in "+-":
                if r.random() < 0.25:
                    a = f"({a})"
                if pb <= 0 and (op == "-" or r.random() < 0.5):
                    b = f"({b})"
                elif pb == 2 and r.random() < 0.5:
                    b = f"({b})"
                return f"{a} {op} {b}", 0
            # no literal zero as a factor or divisor: log(q*0), 1/(0*x) are undefined for every input (sympy: zoo)
            if b.strip("()") in ("0", "0.0"):
                b = self.lit(nonzero=True)
            if a.strip("()") in ("0", "0.0"):
                a = self.lit(nonzero=True)
            if op == "/" and self.zero_branch(b):
                b, pb = (self.name(avail) if avail else self.lit(nonzero=True)), 4
            if pa < 1:
                a = f"({a})"
            if pb < 1 or (op == "/" and pb <= 1):
                b = f"({b})"
            return f"{a}{r.choice(['*', ' * ']) if op == '*' else r.choice(['/', ' / '])}{b}", 1
        if k < 0.50:
            a, pa = self.expr(d - 1, avail)
            if pa < 2 or (pa == 2 and r.random() < 0.5):
                a = f"({a})"
            return f"-{a}", 2
        if k < 0.62:
            e = r.choice(["2", "3", "2", "-1", "-2", "0.5", "2.0", "(1/2)", "(1/3)", "1.5", "4"] if prof != "poly" else ["2", "3", "2", "-1", "-2", "4"])
            a, pa = self.var_expr(d - 1, avail) if e not in ("2", "3", "4", "2.0") else self.expr(d - 1, avail)
            if e.lstrip("(").startswith("-"):
                for _ in range(6):
                    if not self.zero_branch(a):
                        break
                    a, pa = self.var_expr(d - 1, avail)
                else:
                    a, pa = (self.name(avail) if avail else "t"), 4
            if pa < 4:
                a = f"({a})"
            # unary minus in front of a power binds looser than ** : keep both spellings
            if e.startswith("-") and r.random() < 0.5:
                e = f"({e})"
            return f"{a}**{e}", 3
        if prof == "poly":
            a, pa = self.expr(d - 1, avail)
            return f"({a})", 4
        if k < 0.78:
            fs = ["exp", "exp", "sin", "cos", "log", "sqrt", "abs", "atan", "ln", "Abs"]
            if prof == "full":
                fs += ["floor", "floor", "tan", "asin", "acos"]
            f = r.choice(fs)
            a, _ = self.var_expr(d - 1, avail)
            if f in ("abs", "Abs"):
                # known finding C01|KNOWN:abs-exp-sqrt: sympy rewrites Abs(exp(u)) to exp(re(u)) - excluded construct
                for _ in range(6):
                    if "exp(" not in a:
                        break
                    a, _ = self.var_expr(d - 1, avail)
                else:
                    a = self.name(avail) if avail else "t"
            if f == "exp":
                # keep exponent arguments small in structure (exp of exp explodes the lemma instantiation) and in
                # magnitude (exp(2.5E+4 + x) overflows doubles: sympy folds it to inf - outside every claim)
                for _ in range(8):
                    a, _ = self.var_expr(min(d - 1, 1), avail)
                    if not any(big in a for big in ("2.5E+4", "1.5e3", "1e2", "100.0")):
                        break
                else:
                    a = self.name(avail) if avail else "t"
            return f"{f}({a})", 4
        if k < 0.82 and prof == "full":
            a, _ = self.expr(d - 1, avail)
            b = r.choice([self.lit(positive=True), self.lit(positive=True), "-" + self.lit(positive=True)] + ([self.name(self.params)] if self.params else []))
            return f"Mod({a}, {b})", 4
        if k < 0.94:
            c = self.cond(min(d - 1, 2), avail)
            a, _ = self.expr(d - 1, avail)
            b, _ = self.expr(d - 1, avail)
            return f"Conditional({c}, {a}, {b})", 4
        if k < 0.97 and prof == "full":
            rel = r.choice(["Lt", "Gt", "Le", "Ge"])
            l, _ = self.var_expr(min(d - 1, 1), avail)
            rr = r.choice([x for x in ["0", "1", "0.5", "2", "-1.5", "10"] + list(avail[:3]) if x != l])
            a, _ = self.expr(d - 1, avail)
            b, _ = self.expr(d - 1, avail)
            return f"ContinuousConditional({rel}({l}, {rr}), {a}, {b}, {r.choice(['0.5', '0.25', '2', '1.0'])})", 4
        a, pa = self.expr(d - 1, avail)
        return f"({a})", 4

    def rel(self, d, avail):
        rel = self.r.choice(["Lt", "Gt", "Le", "Ge", "Lt", "Gt", "Eq"])
        a, _ = self.var_expr(d, avail)
        for _ in range(6):
            b, _ = self.expr(max(d - 1, 0), avail)
            if b != a:
                break
        else:
            b = "0.5"
        return f"{rel}({a}, {b})"

    def cond(self, d, avail):
        r = self.r
        k = r.random()
        if d <= 0 or k < 0.55:
            return self.rel(max(d, 0), avail)
        if k < 0.70:
            return f"Not({self.cond(d - 1, avail)})"
        n = r.choice([2, 2, 3, 4])
        return f"{r.choice(['And', 'Or'])}({', '.join(self.cond(d - 1, avail) for _ in range(n))})"


def _decl(r, name, value, annotate):
    if annotate and r.random() < 0.3:
        parts = [value]
        if r.random() < 0.7:
            parts.append(f'unit="{r.choice(UNITS)}"')
        if r.random() < 0.5:
            parts.append(f'description="{r.choice(DESCS)}"')
        return f"{name}=ScalarParam({', '.join(parts)})"
    return f"{name}={value}"


def program(i, profile="full", depth=3, components=True, odd_names=True, annotate=True, comments=True):
    """Program number i of the GEN universe for the given knobs (pure function of its arguments)."""
    r = random.Random(f"GEN/{profile}/{depth}/{i}")
    ns = r.choice([1, 2, 2, 3, 3, 4])
    np_ = r.choice([0, 1, 2, 3, 3, 4, 5])
    ni = r.choice([0, 1, 2, 3, 4, 5, 6])
    pool_s = list(STATE_NAMES)
    pool_p = list(PARAM_NAMES)
    pool_i = list(INTER_NAMES)
    if odd_names and r.random() < 0.3:
        odd = r.sample(ODD_NAMES, 3)
        pool_s.insert(0, odd[0])
        pool_p.insert(0, odd[1])
        pool_i.insert(0, odd[2])
        states = [pool_s[0]] + r.sample(pool_s[1:], ns - 1)
        params = ([pool_p[0]] + r.sample(pool_p[1:], np_ - 1)) if np_ else []
        inters = ([pool_i[0]] + r.sample(pool_i[1:], ni - 1)) if ni else []
    else:
        states = r.sample(pool_s, ns)
        params = r.sample(pool_p, np_)
        inters = r.sample(pool_i, ni)
    # dependency shape: intermediate j may read intermediates with a smaller index (acyclic by construction)
    g = G(r, profile, states, params)
    # some names are deliberately never offered to expressions: unused parameters / states
    hidden = set()
    if params and r.random() < 0.35:
        hidden.add(r.choice(params))
    if len(states) > 1 and r.random() < 0.2:
        hidden.add(r.choice(states))
    base = [n for n in states + params if n not in hidden]
    defs = []   # (name, text)
    for j, n in enumerate(inters):
        avail = base + inters[:j]
        if j and r.random() < 0.5:
            avail = avail + inters[max(0, j - 2):j] * 2     # bias towards chains
        # an intermediate is never a bare constant (known finding C01|KNOWN:const-zero-divisor: constant zero divisors)
        e, _ = g.var_expr(r.choice([1, 2, depth]), avail)
        if profile == "full" and r.random() < 0.06 and avail:
            nm = [x for x in avail if x in states or x in params]
            if len(nm) >= 2:   # a comparison used as a number (two different plain quantities: sympy cannot fold it)
                a1, a2 = r.sample(nm, 2)
                e = f"{e} + {r.choice(['2*', ''])}{r.choice(['Lt', 'Gt', 'Le', 'Ge'])}({a1}, {r.choice([a2, g.lit()])})"
        defs.append((n, e))
    live_inters = inters[:]
    if inters and r.random() < 0.3:
        live_inters = inters[:-1] or inters       # the last intermediate is monitor-only (unused by derivatives)
    for s in states:
        avail = base + live_inters * 2
        if r.random() < 0.15:
            e = r.choice(["0", "1.0", f"-{s}", "0.0"])
        else:
            e, _ = g.expr(r.choice([1, 2, depth]), avail)
            if r.random() < 0.5 and s not in hidden:
                e = f"{e} - {r.choice(['', '2*', 'a0*'][:2])}{s}"
        defs.append((f"d{s}_dt", e))
    # declarations
    sval = {s: r.choice(["1.0", "0.5", "-80.0", "2", "0.01", "1e-3", "0", "-1.5"]) for s in states}
    pval = {p: r.choice(["0.5", "2.0", "1.5", "3", "1/4", "exp(1)", "1e-3", "2.5E+4", "-0.5", "10", "0.1", "sqrt(4)", "2*3", "pi"]) for p in params}
    ncomp = r.choice([1, 1, 1, 2, 2, 3]) if components else 1
    lines = []
    if ncomp == 1:
        order = r.random()
        pl = ("parameters(" + ", ".join(_decl(r, p, pval[p], annotate) for p in params) + ")") if params else None
        sl = "states(" + ", ".join(_decl(r, s, sval[s], annotate) for s in states) + ")"
        if len(states) > 2 and r.random() < 0.3:
            sl = "states(" + ",\n       ".join(_decl(r, s, sval[s], annotate) for s in states) + ")"
        hdr = [x for x in ([pl, sl] if order < 0.6 else [sl, pl]) if x]
        body = [f"{n} = {e}" for n, e in defs]
        r.shuffle(body)
        blocks = ([("parameters", None, [f"{p}={pval[p]}" for p in params])] if params else []) + \
            [("states", None, [f"{s}={sval[s]}" for s in states]), ("expr", None, list(body))]
        if comments and r.random() < 0.3:
            hdr.insert(0, "# generated model")
        if comments and r.random() < 0.3:
            k = r.randrange(len(body))
            body[k] = body[k] + " # " + r.choice(UNITS[:3])
        lines = hdr + body
    else:
        cn = ["Ca", "Mb", "Kx"][:ncomp]
        comp_of = {}
        for j, s in enumerate(states):
            comp_of[s] = cn[j % ncomp]
            comp_of[f"d{s}_dt"] = comp_of[s]
        for p in params:
            comp_of[p] = r.choice(cn)
        for n in inters:
            comp_of[n] = r.choice(cn)
        dblocks = []
        sblocks = []
        for c in cn:
            ps = [p for p in params if comp_of[p] == c]
            ss = [s for s in states if comp_of[s] == c]
            if ps:
                items = [_decl(r, p, pval[p], annotate) for p in ps]
                dblocks.append(f'parameters("{c}", ' + ", ".join(items) + ")")
                sblocks.append(("parameters", c, items))
            if ss:
                items = [_decl(r, s, sval[s], annotate) for s in ss]
                dblocks.append(f'states("{c}", ' + ", ".join(items) + ")")
                sblocks.append(("states", c, items))
        order = list(range(len(dblocks)))
        r.shuffle(order)
        dblocks = [dblocks[k] for k in order]
        sblocks = [sblocks[k] for k in order]
        eb = []
        for c in cn:
            body = [f"{n} = {e}" for n, e in defs if comp_of[n] == c]
            r.shuffle(body)
            if body:
                eb.append([f'{r.choice(["expressions", "component"])}("{c}")'] + body)
        r.shuffle(eb)
        lines = dblocks + [ln for b in eb for ln in b]
        blocks = sblocks + [("expr", b[0].split('"')[1], b[1:]) for b in eb]
    text = "\n".join(lines) + "\n"
    return {"family": "GEN", "id": f"{profile}{depth}:{i}:{text_id(text)[:6]}", "text": text,
            "meta": {"i": i, "profile": profile, "ncomp": ncomp, "states": states, "params": params, "inters": inters,
                     "hidden": sorted(hidden), "blocks": blocks}}


# Programs of the universe that run into a recorded (not repaired) defect of gotranx.  They are left out of the generated
# slices; each defect has a deterministic witness among the KNOWN models of vt/props/c01.py and an entry in known_findings.json.
EXCLUDED: dict = {
}


def universe(n, profile="full", depth=3, start=0, **kw):
    return [program(i, profile, depth, **kw) for i in range(start, start + n) if (profile, depth, i) not in EXCLUDED]


def pick(n_total, n, seed, profile="full", depth=3, **kw):
    """n programs of the first n_total (seeded choice of indices; all of them when n >= n_total)."""
    idx = list(range(n_total))
    if n < n_total:
        idx = sorted(random.Random(f"pick/{seed}").sample(idx, n))
    return [program(i, profile, depth, **kw) for i in idx if (profile, depth, i) not in EXCLUDED]


def programs(tier, seed, quick, thorough, profile="std", depth=3, **kw):
    """The GEN slice of a check: `thorough` is the size of the (fixed) universe, the quick tier runs a seeded subset
    of `quick` of exactly those programs - so everything quick can meet has been met by thorough."""
    return pick(thorough, quick if tier == "quick" else thorough, seed, profile, depth, **kw)
