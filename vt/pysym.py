"""E3 - symbolic execution of emitted Python modules (NumPy and JAX dialects).

The module text returned by the real gotran2py.get_code is parsed with `ast`;
each function is executed once, straight-line, with inputs symbolic.  Values:

  Num(cols, vec)    real/bool z3 terms; one column (scalar) or N columns (vector)
  Arr(slots, ...)   1-D (scalar mode) or (n, N) array; slot = Num or None (unset)
  python objects    ints, floats, tuples, strings, dicts (concrete)
  SymStr / SymInt   z3 String / Int terms (index functions, init_* overrides)

Errors *of the artefact* (what the real interpreter would raise) are
ArtefactError; constructs outside the emitted subset are Unsupported
(inconclusive, never success).
"""
from __future__ import annotations

import ast
from fractions import Fraction

import z3

from .smt import Ctx, SymError, RV, kappa_float


class ArtefactError(Exception):
    """The emitted code would raise / misbehave structurally."""

    def __init__(self, kind, msg):
        super().__init__(f"{kind}: {msg}")
        self.kind = kind
        self.msg = msg


class Unsupported(Exception):
    pass


class Num:
    __slots__ = ("cols", "vec")

    def __init__(self, cols, vec=False):
        self.cols = list(cols)
        self.vec = vec

    @property
    def n(self):
        return len(self.cols)


class Arr:
    def __init__(self, slots, is_input=False, name=None, batched=False, lazy=None, length=None):
        self.slots = slots          # dict index -> Num
        self.is_input = is_input
        self.name = name
        self.batched = batched      # True: shape (n, N) ; slots hold vectors
        self.lazy = lazy            # callable i -> Num for inputs
        self.length = length        # int or None (unknown for inputs w/o map)
        self.default_zero = False

    def get(self, i: int):
        if self.length is not None and not (-self.length <= i < self.length):
            raise ArtefactError("IndexError", f"index {i} out of range for {self.name} (length {self.length})")
        if i < 0:
            i += self.length
        if i in self.slots:
            return self.slots[i]
        if self.lazy is not None:
            v = self.lazy(i)
            self.slots[i] = v
            return v
        return None


class SymStr:
    def __init__(self, term):
        self.term = term


class SymInt:
    """Symbolic integer with a raise-condition (KeyError when cond holds)."""

    def __init__(self, term, err=None):
        self.term = term
        self.err = err  # z3 Bool: lookup failed


class ModuleInfo:
    def __init__(self, code: str):
        self.code = code
        self.tree = ast.parse(code)
        self.funcs = {}
        self.dicts = {}
        self.jit = set()
        self.donated = {}
        self.other_decorators = {}
        self.imports = []
        for node in self.tree.body:
            if isinstance(node, ast.FunctionDef):
                if node.name in self.funcs:
                    raise ArtefactError("Redefinition", f"function {node.name} defined twice")
                self.funcs[node.name] = node
                for d in node.decorator_list:
                    src = ast.unparse(d)
                    if src == "jax.jit":
                        self.jit.add(node.name)
                    elif "jit" in src:
                        # jax.jit(...) / partial(jax.jit, ...): traced like jax.jit; buffer donation deletes the caller's array
                        self.jit.add(node.name)
                        if "donate" in src:
                            self.donated[node.name] = src
                    else:
                        self.other_decorators[node.name] = src
            elif isinstance(node, ast.Assign) and len(node.targets) == 1 and isinstance(node.targets[0], ast.Name):
                try:
                    self.dicts[node.targets[0].id] = ast.literal_eval(node.value)
                except Exception:
                    pass
            elif isinstance(node, (ast.Import, ast.ImportFrom)):
                self.imports.append(ast.unparse(node))
        self.is_jax = any("jax" in s for s in self.imports)

    def index_map(self, kind: str) -> dict:
        d = self.dicts.get(kind)
        if not isinstance(d, dict):
            return {}
        return d

    def arg_names(self, fname):
        f = self.funcs[fname]
        return [a.arg for a in f.args.args]


NUMPY_UNARY = {
    "exp": "exp", "log": "log", "sin": "sin", "cos": "cos", "tan": "tan",
    "asin": "asin", "acos": "acos", "atan": "atan", "arcsin": "asin", "arccos": "acos",
    "arctan": "atan", "sqrt": "sqrt", "abs": "abs", "absolute": "abs", "fabs": "abs", "floor": "floor",
}


class PyExec:
    """One symbolic run of one function of an emitted module."""

    def __init__(self, ctx: Ctx, mod: ModuleInfo, ncols: int = 1, jax_traced: bool = False,
                 param_vec=False, t_vec=False, missing_names=None, col_suffix=None, scalar_suffix=""):
        self.ctx = ctx
        self.mod = mod
        self.N = ncols
        self.batched = ncols > 1
        self.jax = jax_traced
        self.param_vec = param_vec
        self.t_vec = t_vec
        self.missing_names = missing_names
        self.scalar_suffix = scalar_suffix  # scalar-mode run standing for one column of a batch
        self.raises = []     # z3 Bool conditions under which an exception is raised
        self.col_suffix = col_suffix or (lambda j: "" if not self.batched else f"@{j}")

    # ---- inputs ------------------------------------------------------------
    def _invert(self, m: dict):
        inv = {}
        for k, v in m.items():
            inv.setdefault(v, []).append(k)
        return inv

    def input_num(self, base, vec):
        if vec and self.batched:
            return Num([self.ctx.inp(base + self.col_suffix(j)) for j in range(self.N)], True)
        if self.batched:
            return Num([self.ctx.inp(base)], False)
        if vec and self.scalar_suffix:
            return Num([self.ctx.inp(base + self.scalar_suffix)], False)
        return Num([self.ctx.inp(base)], False)

    def make_input_array(self, argname):
        if argname == "states":
            inv = self._invert(self.mod.index_map("state"))
            pre = "s_"
            vec = True
        elif argname == "parameters":
            inv = self._invert(self.mod.index_map("parameter"))
            pre = "p_"
            vec = self.param_vec
        elif argname == "missing_variables":
            inv = self._invert(self.mod.index_map("missing"))
            pre = "m_"
            vec = True
        else:
            raise Unsupported(f"array argument {argname}")
        length = len(inv)

        def lazy(i):
            names = inv.get(i)
            if not names:
                raise ArtefactError("IndexError", f"{argname}[{i}] has no name in the emitted index map")
            return self.input_num(pre + names[0], vec)

        return Arr({}, is_input=True, name=argname, batched=self.batched and vec, lazy=lazy, length=length)

    # ---- function execution -----------------------------------------------
    def run(self, fname: str, kwargs_symbolic: int = 0):
        """Execute function `fname`. Returns the returned value (Arr)."""
        f = self.mod.funcs[fname]
        env = {}
        for a in f.args.args:
            n = a.arg
            if n in ("states", "parameters", "missing_variables"):
                env[n] = self.make_input_array(n)
            elif n == "t":
                env[n] = self.input_num("t", self.t_vec)
            elif n == "dt":
                env[n] = self.input_num("dt", False)
            else:
                raise Unsupported(f"unexpected formal parameter {n}")
        if f.args.kwarg is not None:
            # init_*(**values): k symbolic (String key, Real value) pairs
            pairs = []
            for k in range(kwargs_symbolic):
                pairs.append((SymStr(z3.String(f"key{k}")), Num([self.ctx.inp(f"val{k}")])))
            env[f.args.kwarg.arg] = ("kwargs", pairs)
        self.env = env
        self.fname = fname
        ret = None
        try:
            for st in f.body:
                r = self.stmt(st)
                if r is not None:
                    ret = r[0]
                    break
        except (TypeError, KeyError, AttributeError, IndexError, ValueError, z3.Z3Exception) as e:
            # a construct of the emitted code that this executor does not model: inconclusive, never success
            raise Unsupported(f"executor cannot evaluate a statement of {fname}: {type(e).__name__}: {e}")
        return ret

    def stmt(self, st):
        if isinstance(st, ast.Expr):
            if isinstance(st.value, ast.Constant):
                return None
            self.ev(st.value)
            return None
        if isinstance(st, ast.Return):
            return (self.ev(st.value) if st.value is not None else None,)
        if isinstance(st, ast.Assign):
            if len(st.targets) != 1:
                raise Unsupported("multiple assignment targets")
            tgt = st.targets[0]
            val = self.ev(st.value)
            self.assign(tgt, val)
            return None
        if isinstance(st, ast.For):
            return self.for_loop(st)
        if isinstance(st, ast.Pass):
            return None
        raise Unsupported(f"statement {type(st).__name__}")

    def assign(self, tgt, val):
        if isinstance(tgt, ast.Name):
            self.env[tgt.id] = val
            return
        if isinstance(tgt, ast.Subscript) and isinstance(tgt.value, ast.Name):
            arr = self.lookup(tgt.value.id)
            if not isinstance(arr, Arr):
                raise ArtefactError("TypeError", f"subscript store into non-array {tgt.value.id}")
            if arr.is_input:
                raise ArtefactError("InputMutation", f"store into input array {tgt.value.id}")
            if self.jax:
                raise ArtefactError("JaxImmutable", "item assignment on a jax array")
            idx = self.ev(tgt.slice)
            self.store(arr, idx, val)
            return
        raise Unsupported(f"assignment target {ast.unparse(tgt)}")

    def store(self, arr: Arr, idx, val):
        val = self.as_num(val)
        if isinstance(idx, SymInt):
            if idx.err is not None:
                self.raises.append(idx.err)
            for j in range(arr.length):
                old = arr.get(j)
                if old is None:
                    raise Unsupported("symbolic store into unset slot")
                arr.slots[j] = Num([z3.If(idx.term == j, self.ctx.real(val.cols[0]), self.ctx.real(old.cols[0]))])
            return
        if not isinstance(idx, int):
            raise Unsupported("non-constant index store")
        if arr.length is not None and not (-arr.length <= idx < arr.length):
            raise ArtefactError("IndexError", f"store index {idx} out of range (length {arr.length}) in {self.fname}")
        if idx < 0:
            idx += arr.length
        if val.vec and not arr.batched:
            raise ArtefactError("ValueError", "setting an array element with a sequence (vector into 1-D slot)")
        if getattr(arr, "bad_cols", None) is not None and (val.vec or self.batched):
            raise ArtefactError("ValueError", f"could not broadcast input array from shape ({self.N},) into shape ({arr.bad_cols},)")
        if arr.batched and not val.vec:
            val = Num([val.cols[0]] * self.N, True)
        arr.slots[idx] = val

    def for_loop(self, st: ast.For):
        # pattern:  for key, value in values.items(): <arr>[<idx>(key)] = value
        it = st.iter
        if not (isinstance(it, ast.Call) and isinstance(it.func, ast.Attribute) and it.func.attr == "items"
                and isinstance(it.func.value, ast.Name)):
            raise Unsupported("for loop shape")
        src = self.lookup(it.func.value.id)
        if not (isinstance(src, tuple) and src[0] == "kwargs"):
            raise Unsupported("for loop over non-kwargs")
        if not (isinstance(st.target, ast.Tuple) and len(st.target.elts) == 2):
            raise Unsupported("for target")
        kname, vname = [e.id for e in st.target.elts]
        for key, value in src[1]:
            self.env[kname] = key
            self.env[vname] = value
            for s in st.body:
                r = self.stmt(s)
                if r is not None:
                    return r
        return None

    # ---- expressions -------------------------------------------------------
    def lookup(self, name):
        if name in self.env:
            return self.env[name]
        if name in self.mod.dicts:
            return self.mod.dicts[name]
        if name in self.mod.funcs:
            return ("func", name)
        if name in ("numpy", "jax", "math"):
            return ("module", name)
        if name in ("len", "abs", "min", "max", "float", "int"):
            return ("builtin", name)
        raise ArtefactError("NameError", f"name '{name}' is not defined in {self.fname}")

    def as_num(self, v) -> Num:
        if isinstance(v, Num):
            return v
        if isinstance(v, bool):
            return Num([z3.BoolVal(v)])
        if isinstance(v, int):
            return Num([RV(Fraction(v))])
        if isinstance(v, float):
            return Num([RV(kappa_float(v))])
        if v == ("pi",):
            return Num([self.ctx.pi])
        raise Unsupported(f"not a number: {v!r}")

    def lift(self, f, *vals):
        """Apply elementwise f over Nums (broadcast scalar/vector)."""
        nums = [self.as_num(v) for v in vals]
        vec = any(x.vec for x in nums)
        n = self.N if vec else 1
        cols = []
        for j in range(n):
            cols.append(f(*[(x.cols[j] if x.vec else x.cols[0]) for x in nums]))
        return Num(cols, vec)

    def ev(self, e):
        c = self.ctx
        if isinstance(e, ast.Constant):
            return e.value
        if isinstance(e, ast.Name):
            return self.lookup(e.id)
        if isinstance(e, ast.Tuple):
            return tuple(self.ev(x) for x in e.elts)
        if isinstance(e, ast.List):
            return [self.ev(x) for x in e.elts]
        if isinstance(e, ast.UnaryOp):
            v = self.ev(e.operand)
            if isinstance(e.op, ast.USub):
                if isinstance(v, (int, float)) and not isinstance(v, bool):
                    return -v
                if isinstance(v, Num) and all(z3.is_bool(x) for x in v.cols):
                    raise ArtefactError("TypeError", "numpy boolean negative, the `-` operator, is not supported")
                return self.lift(c.neg, v)
            if isinstance(e.op, ast.UAdd):
                return v if isinstance(v, (int, float)) else self.lift(c.real, v)
            if isinstance(e.op, ast.Not):
                if isinstance(v, bool):
                    return not v
                n = self.as_num(v)
                self.truth_check(n, "not")
                return self.lift(c.not_, n)
            if isinstance(e.op, ast.Invert):
                return self.lift(c.not_, v)
            raise Unsupported("unary op")
        if isinstance(e, ast.BinOp):
            a = self.ev(e.left)
            b = self.ev(e.right)
            return self.binop(e.op, a, b)
        if isinstance(e, ast.BoolOp):
            vals = [self.ev(x) for x in e.values]
            if all(isinstance(v, bool) for v in vals):
                return all(vals) if isinstance(e.op, ast.And) else any(vals)
            nums = [self.as_num(v) for v in vals]
            for n in nums:
                self.truth_check(n, "and/or")
            return self.lift(c.and_ if isinstance(e.op, ast.And) else c.or_, *nums)
        if isinstance(e, ast.Compare):
            if len(e.ops) != 1:
                raise Unsupported("chained comparison")
            a = self.ev(e.left)
            b = self.ev(e.comparators[0])
            opn = {ast.Lt: "<", ast.LtE: "<=", ast.Gt: ">", ast.GtE: ">=", ast.Eq: "==", ast.NotEq: "!="}.get(type(e.ops[0]))
            if opn is None:
                raise Unsupported("comparison op")
            if not isinstance(a, (Num,)) and not isinstance(b, (Num,)) and not (a == ("pi",) or b == ("pi",)):
                # concrete python comparison (shape logic)
                import operator
                return {"<": operator.lt, "<=": operator.le, ">": operator.gt, ">=": operator.ge,
                        "==": operator.eq, "!=": operator.ne}[opn](a, b)
            return self.lift(lambda x, y: c.rel(opn, x, y), a, b)
        if isinstance(e, ast.IfExp):
            t = self.ev(e.test)
            if isinstance(t, bool):
                return self.ev(e.body) if t else self.ev(e.orelse)
            tn = self.as_num(t)
            self.truth_check(tn, "conditional expression")
            a = self.ev(e.body)
            b = self.ev(e.orelse)
            return self.lift(c.ite, tn, a, b)
        if isinstance(e, ast.Subscript):
            base = self.ev(e.value)
            idx = self.ev(e.slice)
            return self.subscript(base, idx)
        if isinstance(e, ast.Attribute):
            base = self.ev(e.value)
            return self.attribute(base, e.attr)
        if isinstance(e, ast.Call):
            return self.call(e)
        raise Unsupported(f"expression {type(e).__name__}")

    def truth_check(self, n: Num, what):
        if n.vec:
            raise ArtefactError("ValueError", f"truth value of an array is ambiguous ({what} on a vector)")
        if self.jax:
            raise ArtefactError("TracerBoolConversionError", f"python {what} on a traced value under jax.jit")

    def _both_bool(self, a, b):
        try:
            na, nb = self.as_num(a), self.as_num(b)
        except Unsupported:
            return False
        return all(z3.is_bool(x) for x in na.cols) and all(z3.is_bool(x) for x in nb.cols)

    def binop(self, op, a, b):
        c = self.ctx
        # numpy / jax boolean arrays: + is logical or, * is logical and, - is a TypeError (validated against numpy 2.5 / jax 0.11)
        if self._both_bool(a, b):
            if isinstance(op, ast.Add):
                return self.lift(c.or_, a, b)
            if isinstance(op, ast.Mult):
                return self.lift(c.and_, a, b)
            if isinstance(op, ast.Sub):
                raise ArtefactError("TypeError", "numpy boolean subtract, the `-` operator, is not supported")
        if isinstance(op, ast.Add):
            return self.lift(c.add, a, b)
        if isinstance(op, ast.Sub):
            return self.lift(c.sub, a, b)
        if isinstance(op, ast.Mult):
            return self.lift(c.mul, a, b)
        if isinstance(op, ast.Div):
            return self.lift(c.div, a, b)
        if isinstance(op, ast.Pow):
            return self.lift(c.pow, a, b)
        if isinstance(op, ast.Mod):
            return self.lift(c.floormod, a, b)
        if isinstance(op, ast.FloorDiv):
            return self.lift(lambda x, y: c.floor(c.div(x, y)), a, b)
        raise Unsupported(f"binary op {type(op).__name__}")

    def subscript(self, base, idx):
        if isinstance(base, Arr):
            if isinstance(idx, int):
                v = base.get(idx)
                if v is None:
                    if base.default_zero:
                        return Num([RV(0)])
                    raise ArtefactError("UnsetRead", f"read of unset slot {base.name}[{idx}]")
                return v
            raise Unsupported("non-constant array index")
        if isinstance(base, dict):
            if isinstance(idx, SymStr):
                # ite chain; KeyError when no key matches
                keys = list(base.items())
                term = z3.IntVal(-1)
                for k, v in reversed(keys):
                    term = z3.If(idx.term == z3.StringVal(k), z3.IntVal(v), term)
                err = z3.And(*[idx.term != z3.StringVal(k) for k, _ in keys]) if keys else z3.BoolVal(True)
                return SymInt(term, err)
            if idx not in base:
                raise ArtefactError("KeyError", repr(idx))
            return base[idx]
        if isinstance(base, tuple) and isinstance(idx, int):
            if not (-len(base) <= idx < len(base)):
                raise ArtefactError("IndexError", "tuple index out of range")
            return base[idx]
        raise Unsupported("subscript")

    def attribute(self, base, attr):
        if isinstance(base, tuple) and base and base[0] == "module":
            m = base[1]
            if m in ("numpy", "math"):
                if attr == "pi":
                    return ("pi",)
                if attr == "e":
                    return Num([self.ctx.exp(RV(1))])
                if attr in ("float64",):
                    return ("dtype", attr)
                if attr == "inf":
                    # no real number: an unconstrained fresh value per occurrence (an unsat then holds whatever it is;
                    # a sat is replayed on the real function, where it is a real inf)
                    self.ctx._ninf = getattr(self.ctx, "_ninf", 0) + 1
                    return Num([self.ctx.inp(f"i_inf{self.ctx._ninf}")])
                if attr == "nan":
                    raise Unsupported(f"numpy.{attr}")
                return ("npfunc", attr)
            if m == "jax":
                return ("jaxattr", attr)
        if isinstance(base, tuple) and base and base[0] == "npfunc" and attr == "reduce":
            return ("npreduce", base[1])
        if isinstance(base, Arr):
            if attr == "shape":
                if base.batched:
                    return (base.length, self.N)
                return (base.length,)
            if attr == "at":
                return ("at", base)
        if isinstance(base, tuple) and base and base[0] == "atidx" and attr == "set":
            return ("atset", base[1], base[2])
        raise Unsupported(f"attribute {attr}")

    def call(self, e: ast.Call):
        c = self.ctx
        fn = self.ev(e.func)
        args = [self.ev(a) for a in e.args]
        kw = {k.arg: self.ev(k.value) for k in e.keywords}
        if isinstance(fn, tuple):
            tag = fn[0]
            if tag == "builtin":
                if fn[1] == "len":
                    if isinstance(args[0], Arr):
                        if args[0].length is None:
                            raise Unsupported("len of an array of unknown length")
                        return args[0].length
                    if isinstance(args[0], Num):
                        if not args[0].vec:
                            raise ArtefactError("TypeError", "len() of a 0-d value")
                        return self.N
                    return len(args[0])
                if fn[1] == "abs":
                    return self.lift(c.abs, args[0])
                if fn[1] in ("float", "int"):
                    n = self.as_num(args[0])
                    self.truth_check(n, fn[1] + "()")
                    return n
                raise Unsupported(fn[1])
            if tag == "func":
                return self.call_module_func(fn[1], args)
            if tag == "npfunc":
                return self.npcall(fn[1], args, kw)
            if tag == "npreduce":
                return self.npreduce(fn[1], args)
            if tag == "atset":
                arr, idx = fn[1], fn[2]
                new = Arr(dict(arr.slots), is_input=False, name=arr.name, batched=arr.batched, lazy=arr.lazy,
                          length=arr.length)
                new.default_zero = arr.default_zero
                # force materialisation for symbolic stores
                for j in range(new.length or 0):
                    new.slots[j] = arr.get(j)
                self.store(new, idx, args[0])
                return new
        raise Unsupported(f"call {ast.unparse(e.func)}")

    def subscript_at(self, at, idx):
        return ("atidx", at[1], idx)

    def call_module_func(self, name, args):
        f = self.mod.funcs[name]
        if not name.endswith("_index"):
            raise Unsupported(f"call to module function {name}")
        # body: return <dict>[name]
        ret = [s for s in f.body if isinstance(s, ast.Return)]
        if len(ret) != 1 or len(f.args.args) != 1:
            raise Unsupported("index function shape")
        saved = self.env
        self.env = {f.args.args[0].arg: args[0]}
        try:
            return self.ev(ret[0].value)
        finally:
            self.env = saved

    def npcall(self, name, args, kw):
        c = self.ctx
        if name in NUMPY_UNARY:
            fn = NUMPY_UNARY[name]
            return self.lift(lambda x: c.fn(fn, x), args[0])
        if name == "where":
            if len(args) != 3:
                raise Unsupported("where arity")
            return self.lift(c.ite, *args)
        if name in ("logical_and", "logical_or"):
            f = c.and_ if name == "logical_and" else c.or_
            return self.lift(f, args[0], args[1])
        if name == "logical_not":
            return self.lift(c.not_, args[0])
        if name in ("power", "pow"):
            return self.lift(c.pow, args[0], args[1])
        if name in ("mod", "remainder"):
            return self.lift(c.floormod, args[0], args[1])
        if name == "fmod":
            return self.lift(c.truncmod, args[0], args[1])
        if name == "sign":
            return self.lift(c.sign, args[0])
        if name == "copysign":
            return self.lift(lambda m, s: z3.If(c.real(s) >= 0, c.abs(m), -c.abs(m)), args[0], args[1])
        if name == "ceil":
            return self.lift(lambda x: -c.floor(-c.real(x)), args[0])
        if name in ("minimum", "fmin"):
            return self.lift(lambda x, y: z3.If(c.real(x) <= c.real(y), c.real(x), c.real(y)), *args)
        if name in ("maximum", "fmax"):
            return self.lift(lambda x, y: z3.If(c.real(x) >= c.real(y), c.real(x), c.real(y)), *args)
        if name == "zeros_like":
            src = args[0]
            if isinstance(src, Arr):
                out = Arr({}, name="values", batched=src.batched, length=src.length)
                zero = Num([RV(0)] * (self.N if src.batched else 1), src.batched)
                for j in range(src.length):
                    out.slots[j] = zero
                out.default_zero = True
                return out
            if isinstance(src, Num):
                return self.lift(lambda x: RV(0), src)
            raise Unsupported("zeros_like argument")
        if name == "zeros":
            shape = args[0]
            if isinstance(shape, int):
                n, batched = shape, False
            elif isinstance(shape, tuple) and len(shape) == 2:
                n, batched = shape[0], True
            elif isinstance(shape, tuple) and len(shape) == 1:
                n, batched = shape[0], False
            else:
                raise Unsupported(f"zeros shape {shape!r}")
            out = Arr({}, name="values", batched=batched, length=n)
            if batched and isinstance(shape, tuple) and isinstance(shape[1], int) and shape[1] != self.N:
                # second dimension is not the batch size: storing a column vector cannot broadcast
                out.bad_cols = shape[1]
            zero = Num([RV(0)] * (self.N if batched else 1), batched)
            for j in range(n):
                out.slots[j] = zero
            out.default_zero = True
            return out
        if name == "array":
            lst = args[0]
            if not isinstance(lst, (list, tuple)):
                raise Unsupported("array of non-list")
            nums = [self.as_num(v) for v in lst]
            vecs = [x.vec for x in nums]
            if any(vecs) and not all(vecs):
                # numpy/jax: inhomogeneous shape
                raise ArtefactError("ValueError", "numpy.array of mixed scalars and vectors (inhomogeneous shape)")
            out = Arr({}, name="array", batched=bool(nums) and all(vecs), length=len(nums))
            for j, x in enumerate(nums):
                out.slots[j] = x
            return out
        if name in ("float64",):
            return self.as_num(args[0])
        if name in ("isclose", "allclose"):
            rtol = kw.get("rtol", args[2] if len(args) > 2 else 1e-05)
            atol = kw.get("atol", args[3] if len(args) > 3 else 1e-08)
            rt, at = RV(kappa_float(float(rtol))), RV(kappa_float(float(atol)))
            close = self.lift(lambda x, y: c.abs(c.sub(x, y)) <= at + rt * c.abs(y), args[0], args[1])
            if name == "isclose":
                return close
            return Num([c.and_(*close.cols)] if len(close.cols) > 1 else [close.cols[0]], False)
        if name == "broadcast_arrays":
            nums = [self.as_num(a) for a in args]
            vec = any(x.vec for x in nums)
            return [Num([x.cols[j] if x.vec else x.cols[0] for j in range(self.N if vec else 1)], vec) for x in nums]
        if name in ("all", "any", "logical_and_reduce"):
            seq = args[0]
            axis = kw.get("axis", args[1] if len(args) > 1 else None)
            if isinstance(seq, Num):
                seq = [seq]
            if not isinstance(seq, (list, tuple)):
                raise Unsupported(f"numpy.{name} argument")
            nums = [self.as_num(v) for v in seq]
            f = c.and_ if name == "all" else c.or_
            if axis == 0 and len(nums) >= 1 and not isinstance(args[0], Num):
                vecs = [x.vec for x in nums]
                if any(vecs) and not all(vecs):
                    raise ArtefactError("ValueError", f"numpy.{name} over a ragged sequence")
                return self.lift(f, *nums)
            if axis is None:
                # reduces over EVERY axis, including the batch axis: one truth value for the whole batch
                allcols = [col for x in nums for col in x.cols]
                return Num([f(*allcols)], False)
            raise Unsupported(f"numpy.{name} with axis={axis!r}")
        raise Unsupported(f"numpy.{name}")

    def npreduce(self, name, args):
        c = self.ctx
        seq = args[0]
        if not isinstance(seq, (tuple, list)):
            raise Unsupported("reduce over non-tuple")
        if self.mod.is_jax:
            # validated against jax 0.11: TypeError "reduce requires ndarray or scalar arguments, got tuple"
            raise ArtefactError("TypeError", f"jax.numpy.{name}.reduce over a python tuple is not array-like")
        nums = [self.as_num(v) for v in seq]
        vecs = [x.vec for x in nums]
        if any(vecs) and not all(vecs):
            raise ArtefactError("ValueError", f"numpy.{name}.reduce over a ragged tuple (scalar and vector operands mixed)")
        if name == "logical_and":
            return self.lift(c.and_, *nums)
        if name == "logical_or":
            return self.lift(c.or_, *nums)
        raise Unsupported(f"{name}.reduce")


# patch Subscript handling of `.at[...]`
_orig_subscript = PyExec.subscript


def _subscript(self, base, idx):
    if isinstance(base, tuple) and base and base[0] == "at":
        return ("atidx", base[1], idx)
    return _orig_subscript(self, base, idx)


PyExec.subscript = _subscript


def exec_function(ctx: Ctx, mod: ModuleInfo, fname: str, **kw):
    """Symbolically execute one function. Returns (Arr result, PyExec)."""
    kws = kw.pop("kwargs_symbolic", 0)
    px = PyExec(ctx, mod, **kw)
    res = px.run(fname, kwargs_symbolic=kws)
    return res, px
