"""E1 - bounded, deterministic program families (DESIGN 2.2).

Every generator returns a list of dicts {family, id, text, meta}.  `VERIF_SEED`
only selects which deterministic subset the quick tier runs.
"""
from __future__ import annotations

import glob
import itertools
import os
import random

from .core import text_id

HEADER = """parameters(a=0.5, b=2.0, c=1.5)
states(x=1.0, y=2.0, z=0.25)
"""


def pack(exprs, family, meta=None, header=HEADER, per=6):
    """Pack expressions as intermediates w0..wk of small 3-state models."""
    out = []
    for i in range(0, len(exprs), per):
        chunk = exprs[i:i + per]
        lines = [f"w{j} = {e}" for j, e in enumerate(chunk)]
        ws = " + ".join(f"w{j}" for j in range(len(chunk)))
        text = header + "\n".join(lines) + f"\ndx_dt = {ws}\ndy_dt = -y + x\ndz_dt = a*(x - z)\n"
        out.append({"family": family, "id": text_id(text), "text": text, "meta": dict(meta or {}, exprs=chunk)})
    return out


# ---------------------------------------------------------------- EXPR
OPS = ["+", "-", "*", "/", "**"]
SYMS = ["x", "y", "a", "b"]


def _paren_variants(operands, ops):
    """All texts for operand/op sequence with zero or one parenthesised contiguous group
    (plus one nested variant), which changes/keeps grouping vs. precedence."""
    n = len(operands)
    toks = []
    for i, o in enumerate(operands):
        toks.append(o)
        if i < n - 1:
            toks.append(ops[i])
    yield " ".join(toks)
    for i in range(n):
        for j in range(i + 1, n):
            if i == 0 and j == n - 1:
                continue
            parts = []
            for k in range(n):
                s = operands[k]
                if k == i:
                    s = "(" + s
                if k == j:
                    s = s + ")"
                parts.append(s)
                if k < n - 1:
                    parts.append(ops[k])
            yield " ".join(parts)


def expr_family(max_leaves=4):
    exprs = []
    seen = set()
    for n in range(2, max_leaves + 1):
        for ops in itertools.product(OPS, repeat=n - 1):
            if ops.count("**") > 2:
                continue
            base = SYMS[:n]
            sign_sets = [()] + [(i,) for i in range(n)] + ([(0, n - 1)] if n > 2 else [])
            for signs in sign_sets:
                operands = [("-" + s if i in signs else s) for i, s in enumerate(base)]
                for t in _paren_variants(operands, list(ops)):
                    # '** -x' is fine (factor), 'x ** -y' ok; '* -x' ok in python grammar
                    if t not in seen:
                        seen.add(t)
                        exprs.append(t)
    return exprs


def expr_extra():
    return [
        "-x**2", "(-x)**2", "-x**-2", "2**-x", "x**y**2", "(x**y)**2", "x**(y**2)", "-(x - y) - (a - b)",
        "x - (y - (a - b))", "x / (y / (a / b))", "x / y / a / b", "x - y - a - b", "x * -y", "x / -y",
        "- - x", "-(-x)", "+x - +y", "x**2**0.5", "x * (y + a) * b", "(x + y) * (a + b) / (x - b)",
        "x / (y * a)", "x / y * a", "x * y / a", "a - -b", "a - +b", "-a ** -b", "~x" if False else "x",
        "x ** 0.5", "x ** (1/2)", "x ** -0.5", "x ** (1/3)", "x ** 1.5", "x ** 3 ** 2" if False else "x ** 3",
        "(x + 1) ** 2", "((2 + x) / 2) ** (1 + x)", "x ** 2 * y ** 3 / a ** 2",
        "((((x))))", "(x) + ((y))", "2 * 3 / 4", "1 / 4 * x", "x * 1 / 4", "(2 * 3) / 3 * x", "1/4", "2/3*y",
        "x ** (2/3)", "1 / x ** 2", "1 / (x ** 2)", "(1 / x) ** 2",
        # a sign in front of a numeric literal is a unary operator on the power, not part of the number
        "-2 ** x", "-2.5 ** y", "x * -3 ** y", "-10 ** (-a)", "2 ** -3", "(-2) ** 2", "-2 ** 2", "y - -2 ** x", "-1e1 ** x",
        "exp(-2 ** x)", "a / -2 ** 2", "(x - -3 ** 2) * y", "+2 ** x", "-0.5 ** b * x",
        # division by a power (the power is an atom for the enclosing product)
        "a / x ** 2", "a / (x + y) ** 3", "x / y ** 2 / a", "a / x ** 2 * y", "-a / b ** 2", "a / x ** 3 - b / y ** 2",
        "1 / x ** 2 / y ** 3", "a * x / (b + x) ** 2",
        # integer-valued conditionals under negative integer powers (numpy integer arrays)
        "Conditional(Gt(x, y), 4, 3)**-2", "Conditional(Eq(t, x), 4, 3)**-1", "a/Conditional(Gt(x, y), 4, 3)**2", "(Conditional(Gt(x, 0), 2, 1) + 1)**-1",
        # a Conditional as operand of a comparison (sympy: ITE; its simplification may lack the unconditional branch)
        "Conditional(Gt(Conditional(Eq(y, a), x, a), x), 12.5, exp(y))**0.5", "Conditional(Ge(Conditional(Lt(x, 1), y, a), z), 1/x, y)",
        # sums of sums with a multiple of pi as a term (sympy peels pi off term by term)
        "cos(x + (y + pi))", "sin((x + pi/2) + y)", "tan(x + (y + pi))", "sin(x - (y - pi))", "cos((a - b) + (y + 2*pi))",
        "sin(2*pi*t + (x + pi))", "cos(2*(x + pi))", "sin(x*(y + pi))", "cos((x + pi)/2)", "sin((x + y) + (a + pi/2))",
    ]


# ---------------------------------------------------------------- LEAF
LEAVES = ["x", "a", "k", "t", "time", "pi", "2", "3", "0.5", "1.25", "0.1", "3.7", "1e-3", "2.5E+4", "1e2",
          "1E-2", "10", "0", "1", "1.0", "100.0"]
SKELS = ["{0} + {1}", "{0} - {1}", "{0} * {1}", "{0} / {1}", "{0} ** {1}", "-{0} + {1}", "{0} * ({1} - {0})",
         "({0} + {1}) / {0}", "{0} - {1} * {0}", "{0} / {1} / {0}", "{0} * {0}", "{0} - {0}", "{0} / {0}"]


def leaf_family():
    exprs = []
    for sk in SKELS:
        for l0, l1 in itertools.product(LEAVES, repeat=2):
            if l0 == l1 and "{1}" in sk:
                continue
            if "pi" in (l0, l1) and not ({l0, l1} & {"x", "a", "k", "t", "time"}):
                # pi combined with a literal only is folded to one (irrational) double by C compilers
                continue
            e = sk.format(l0, l1)
            # keep 0 out of divisor/power positions that are identically undefined
            if l1 == "0" and ("/ {1}" in sk or "** {1}" in sk):
                continue
            if l0 == "0" and ("/ {0}" in sk or "{0} **" in sk):
                continue
            if "**" in sk and not (l1 in ("2", "3", "0.5", "1", "1.0", "x", "a") and l0 not in ("1e2", "2.5E+4", "100.0", "10")):
                continue
            exprs.append(e)
    return exprs


def pack_leaf(exprs):
    header = "parameters(a=0.5, b=2.0, c=1.5)\nstates(x=1.0, y=2.0, z=0.25)\nk = a*y + 1\n"
    return pack(exprs, "LEAF", header=header)


# ---------------------------------------------------------------- FUNC
FUNCS1 = ["exp", "cos", "sin", "tan", "acos", "asin", "atan", "log", "ln", "sqrt", "abs", "Abs", "floor"]
FCTX = ["{f}(x)", "{f}(-x)", "{f}(2*x)", "{f}(x + a)", "a*{f}(x)", "{f}(x)**2", "-{f}(x)", "1/{f}(x)",
        "{f}(x)/{f}(y)", "{f}(x*y)", "{f}(x) - {f}(y)", "{f}(x/a)", "{f}(0.5)", "{f}(x)*{f}(x)",
        "{f}(x - y)*b", "y + {f}(a*x + b)"]


def func_family():
    exprs = []
    for f in FUNCS1:
        for c in FCTX:
            exprs.append(c.format(f=f))
    for g in ["exp", "sin", "sqrt", "abs", "log", "floor"]:
        for f in ["exp", "cos", "log", "sqrt", "abs", "atan", "floor"]:
            exprs.append(f"{g}({f}(x))")
            exprs.append(f"{g}({f}(x) + y)")
    for a1, a2 in [("x", "2"), ("x", "y"), ("-x", "2"), ("x", "-2"), ("x", "0.5"), ("x + y", "a"), ("x*y", "3"),
                   ("x", "2.5"), ("-x", "-3"), ("t", "2"), ("x", "a + 1")]:
        exprs.append(f"Mod({a1}, {a2})")
        exprs.append(f"y*Mod({a1}, {a2}) + 1")
    # every precedence class in both argument positions of the binary function
    # (dividend and divisor share no symbol: sympy factors a common symbol out of Mod, which needs
    # floor reasoning over products that z3 does not decide within the budget)
    ARGS = ["x", "-x", "x + y", "x - 5", "2*c", "x*y", "c/y", "x/2", "c**2", "(x + 1)*(y + 2)", "abs(y) + 1", "t"]
    for a1 in ARGS:
        for a2 in ["b", "2*b", "b/a", "1/a", "1/(a + 1)", "b + 1", "-b", "b**2", "a*b*2", "2.5", "z + 3"]:
            exprs.append(f"Mod({a1}, {a2})")
    # time (both spellings) in sign-sensitive contexts; negative times are legal inputs
    for v in ("t", "time"):
        exprs += [f"abs({v})", f"sqrt({v}**2)", f"abs({v} - 1)*x", f"floor({v})", f"Mod({v}, 3)", f"sqrt({v}*{v} + 1)", f"exp(-{v})*abs({v})"]
    exprs += ["floor(x) + floor(-x)", "floor(x/2)*2", "abs(x) - abs(-x)", "abs(x*y) - abs(x)*abs(y)",
              "sqrt(x*x)", "exp(x)*exp(-x)", "log(exp(x))", "exp(log(a))", "sin(x)**2 + cos(x)**2",
              "exp(x + y) - exp(x)*exp(y)", "sqrt(x)**2", "cos(pi)", "sin(pi/2)", "cos(2*pi*x)", "exp(1)", "exp(0)",
              "log(1)", "atan(1)", "sqrt(4)", "sqrt(2)*sqrt(2)", "exp(-x/3)", "exp(-(x + 80)/6.8)" if False else "exp(-(x + 80)/8)"]
    return exprs


# ---------------------------------------------------------------- COND
RELN = ["Lt", "Gt", "Le", "Ge", "Eq"]


def cond_family():
    e = []
    for r in RELN:
        e.append(f"Conditional({r}(x, 0), a, b)")
        e.append(f"Conditional({r}(x, y), x, y)")
        e.append(f"Conditional(Not({r}(x, a)), x*y, x + y)")
        e.append(f"Conditional({r}(x, 0.5), 1, 0)*y")
        e.append(f"{r}(x, y)*3 + 1")
        e.append(f"a*{r}(x, 1) - {r}(y, 2)")
        e.append(f"Conditional({r}(a, 1), x, y)")
        e.append(f"Conditional({r}(2, 1), x, y)")
        e.append(f"Conditional({r}(x*y, a + b), exp(x), log(y))")
    for r in ["Lt", "Gt", "Le", "Ge"]:
        e.append(f"ContinuousConditional({r}(x, a), 1, 2, 0.5)")
        e.append(f"ContinuousConditional({r}(x, y), x, y, b)")
        e.append(f"ContinuousConditional({r}(x, a), y, -y, 0.25)*z")
    for v in ("t", "time"):
        e += [f"Conditional(Lt({v}, 0), a, b)", f"Conditional(Ge({v}, 0), x, y)", f"Conditional(Gt({v} + 1, 0), x, -x)",
              f"Lt({v}, 0)*x + Ge({v}, 0)*y", f"Conditional(And(Ge({v}, -1), Le({v}, 2)), -a, 0)", f"Conditional(Le({v}*{v}, 1), x, y)"]
    # equality against non-integer values and expressions; sums / differences of indicators
    e += ["Conditional(Eq(x, 0.5), a, b)", "Conditional(Eq(x, y), 1, 2)", "Conditional(Eq(x, a), x, y)", "Conditional(Eq(floor(4*x)/4, 0.25), 1, 0)",
          "Conditional(Eq(x, -40), a, (x + 40)/b)", "Gt(x, 0) + Gt(x, 1)", "Gt(x, a) + Gt(x, b) + Lt(y, 0)", "Gt(x, 0)*Lt(x, 1)",
          "Conditional(Gt(x, 0), 1, 0) + Conditional(Gt(y, 0), 1, 0)", "Gt(x, 1) - Gt(y, 1)", "2*Gt(x, 0) - 1",
          "Conditional(Gt(x, 0), 1, 0) - Conditional(Gt(y, 0), 1, 0)"]
    conn = ["And", "Or"]
    operands = ["Gt(x, 0)", "Lt(y, 2)", "Ge(z, a)", "Le(a, 1)", "Eq(x, 1)", "Gt(b, 1)", "Lt(x, y)", "Not(Gt(x, y))"]
    for k in (2, 3, 4):
        for cn in conn:
            for start in range(0, len(operands) - k + 1):
                ops = ", ".join(operands[start:start + k])
                e.append(f"Conditional({cn}({ops}), x, y)")
    e += [
        "Conditional(And(Gt(x, 0), Or(Lt(y, 2), Ge(z, 1))), x, y)",
        "Conditional(Or(And(Gt(x, 0), Lt(y, 2)), Ge(z, 1)), x, y)",
        "Conditional(Not(And(Gt(x, 0), Lt(y, 2))), x, y)",
        "Conditional(Not(Or(Gt(x, 0), Lt(y, 2))), x, y)",
        "Conditional(And(Le(a, 1), Gt(x, 0), Lt(y, 2)), x, y)",
        "Conditional(Or(Gt(b, 5), Gt(x, 0), Lt(y, 2)), x, y)",
        "Conditional(Gt(x, 0), Conditional(Gt(y, 0), 1, 2), Conditional(Lt(y, -1), 3, 4))",
        "Conditional(Gt(x, 0), 1, Conditional(Eq(x, 0), 0.5, 0))",
        "Conditional(Gt(x, 0), 1, Conditional(Lt(x, 0), 0, 0.5))",
        "Conditional(Conditional(Gt(x, 0), Gt(y, 0), Lt(y, 0)), 1, 2)" if False else "Conditional(Gt(x, 0), x, 0) + Conditional(Gt(y, 0), y, 0)",
        "Conditional(Gt(x, 0), Conditional(Gt(x, 1), Conditional(Gt(x, 2), 3, 2), 1), 0)",
        "Conditional(Le(x, y), x, y)", "Conditional(Ge(x, y), x, y)",
        "Conditional(Gt(x, 0), x/y, 0)", "Conditional(Gt(y, 0), log(y), 0)", "Conditional(Ge(x, 0), sqrt(x), sqrt(-x))",
        "Conditional(Eq(x, 0), 1, x/(exp(x) - 1))" if False else "Conditional(Eq(x, 0), 1, y/x)",
        "Conditional(Gt(x, 0), 1, 0) * Conditional(Lt(x, 1), 1, 0)",
        "Conditional(Gt(abs(x), 1), x, -x)", "Conditional(Lt(x, 1), 2*x, x**2)",
        "Conditional(And(Ge(t, 1), Le(t, 2)), -a, 0)",
        "Conditional(And(Ge(t - floor(t/b)*b, a), Le(t - floor(t/b)*b, c)), -x, 0)",
        "Conditional(Gt(x, 0), 1, 2) + Conditional(Gt(x, 0), 3, 4)",
        "Conditional(Gt(x, 1), 1, Conditional(Gt(x, 0), 2, 3))",
        "Conditional(Gt(x, 0), 1, Conditional(Gt(x, 1), 2, 3))",
    ]
    return e


# ---------------------------------------------------------------- DAG
def dag_family(max_inter=3, max_states=2):
    """All dependency shapes: intermediates i0..ik may read earlier intermediates, states, params;
    each state's derivative reads a subset of intermediates.  Unused nodes/params/states included."""
    out = []
    for k in range(0, max_inter + 1):
        inter = [f"i{j}" for j in range(k)]
        # adjacency: for each intermediate the set of earlier intermediates it reads
        choices = []
        for j in range(k):
            choices.append(list(_subsets(range(j))))
        for adj in itertools.product(*choices) if k else [()]:
            for ns in range(1, max_states + 1):
                states = ["x", "y", "z"][:ns]
                for dmask in itertools.product(*[list(_subsets(range(k))) for _ in states]):
                    text = _dag_text(inter, adj, states, dmask)
                    out.append({"family": "DAG", "id": text_id(text), "text": text,
                                "meta": {"k": k, "ns": ns}})
    return out


def _subsets(it):
    it = list(it)
    for r in range(len(it) + 1):
        yield from itertools.combinations(it, r)


def _dag_text(inter, adj, states, dmask, textual_reverse=True):
    ns = len(states)
    lines = ["parameters(p=0.5, q=2.0, unused_p=3.0)",
             "states(" + ", ".join(f"{s}={1.0 + i}" for i, s in enumerate(states)) + ")"]
    body = []
    for j, name in enumerate(inter):
        terms = [f"{inter[d]}" for d in adj[j]]
        st = states[j % ns]
        base = [f"p*{st}", f"q - {st}", f"{st}*{st}"][j % 3]
        body.append(f"{name} = " + " + ".join([base] + terms))
    for si, s in enumerate(states):
        terms = [inter[d] for d in dmask[si]]
        body.append(f"d{s}_dt = " + " - ".join([f"-{s}"] + terms) if terms else f"d{s}_dt = -q*{s}")
    if textual_reverse:
        body = body[::-1]
    return "\n".join(lines + body) + "\n"


def chain_model(depth, diamond=False):
    lines = ["parameters(p=0.5)", "states(x=1.0, y=2.0)"]
    lines.append("c0 = p*x + y")
    for j in range(1, depth):
        if diamond and j >= 2:
            lines.append(f"c{j} = c{j-1} + c{j-2}*x")
        else:
            lines.append(f"c{j} = c{j-1}*p + x")
    lines.append(f"dx_dt = -c{depth-1}" if depth else "dx_dt = -x")
    lines.append("dy_dt = x - y")
    return "\n".join(lines) + "\n"


# ---------------------------------------------------------------- LAYOUT
def layout_family():
    out = []
    base = [
        ('states("A", x=1.0)\nstates("B", y=ScalarParam(2.0, unit="mV", description="volt"))\n'
         'parameters("A", a=0.5)\nparameters("B", b=ScalarParam(2.0, unit="ms"), c=1/4)\n'
         'expressions("A")\nia = a*x + y # mV\ndx_dt = -ia\n'
         'expressions("B")\nib = b*y - ia*c\ndy_dt = ib/b\n'),
        ('parameters(a=0.5, b=2.0)\nstates("A", x=1.0, z=0.5)\nstates("B", y=2.0)\n'
         'expressions("B")\ndy_dt = x - y*b\n'
         'expressions("A")\nu = a*z\ndx_dt = -u*x\ndz_dt = u - z\n'),
        ('parameters("C", "D", g=2.0)\nparameters(q=exp(1), r=1e-3, s=2.5E+4, h=-0.5)\nstates("C", x=1.0)\nstates("D", y=2.0)\n'
         'component("C")\ndx_dt = -g*x + q*r\n'
         'component("D")\ndy_dt = g*(x - y)/s + h\n'),
        ('# header comment\nparameters(a=1.0,\n   b=2.0)\n\nstates(x=1.0,\n y=0.0)\n\n'
         '# another\nm = (a*x +\n   b*y)\ndx_dt = -m\ndy_dt = m -\n y\n'),
        ('states("M", V=ScalarParam(-87.0, unit="mV", description=""))\nstates("G", h=0.8, m=0.01)\n'
         'parameters("M", Cm=12.0)\nparameters("L", E_L=-60.0, g_L=75.0)\n'
         'expressions("G")\nalpha_h = 170.0*exp((-V - 1*90.0)/20.0) # S/F\nbeta_h = 1000.0/(exp((-V - 1*42.0)/10.0) + 1.0)\n'
         'dh_dt = alpha_h*(1.0 - h) - beta_h*h\ndm_dt = (0.5 - m)/2.0\n'
         'expressions("L")\ni_Leak = g_L*(-E_L + V) # nA\n'
         'expressions("M")\ndV_dt = (-(i_Leak + h*m**3.0))/Cm # mV\n'),
    ]
    for t in base:
        out.append({"family": "LAYOUT", "id": text_id(t), "text": t, "meta": {}})
    return out


# ---------------------------------------------------------------- CORPUS
def corpus(names=None):
    out = []
    files = sorted(glob.glob("/repo/tests/odefiles/*.ode"))
    for f in files:
        n = os.path.basename(f)
        if names and n not in names:
            continue
        t = open(f).read()
        out.append({"family": "CORPUS", "id": n, "text": t, "meta": {"file": f}})
    return out


# ---------------------------------------------------------------- selection
def select(items, n, seed, keep_first=0):
    """Deterministic subset of size n (seeded); keeps the first `keep_first` items always."""
    if n is None or len(items) <= n:
        return list(items)
    # one-of-a-kind programs are never sampled away
    def keep(x):
        return isinstance(x, dict) and (x.get("family") in ("WIDE", "NOPARAM", "LAYOUT", "CORPUS", "UNUSED", "CINT")
                                        or (x.get("meta") or {}).get("keep"))
    always = [x for x in items if keep(x)]
    items = always + [x for x in items if not keep(x)]
    if len(always) >= n:
        return always
    keep_first = max(keep_first, len(always))
    head = items[:keep_first]
    rest = items[keep_first:]
    rnd = random.Random(seed)
    idx = sorted(rnd.sample(range(len(rest)), n - len(head)))
    return head + [rest[i] for i in idx]


def wide_program(n=12):
    """More than 10 states / monitored quantities (two-digit slot numbers)."""
    names = [f"q{i}" for i in range(n)]
    lines = ["parameters(a=0.5, b=2.0)", "states(" + ", ".join(f"{s}={1.0 + 0.25 * i}" for i, s in enumerate(names)) + ")"]
    for i, s in enumerate(names):
        lines.append(f"m{i} = a*{s} + {i + 1}*b")
    for i, s in enumerate(names):
        nxt = names[(i + 1) % n]
        lines.append(f"d{s}_dt = -m{i} + {nxt}*{i + 2}")
    t = "\n".join(lines) + "\n"
    return {"family": "WIDE", "id": text_id(t), "text": t, "meta": {"n": n}}


def value_programs(tier, seed):
    """The shared program universe for value properties (C01, C02, C03, C05...)."""
    ex = expr_family(3 if tier == "quick" else 4)
    P = []
    P += pack(expr_extra(), "EXPR", meta={"keep": True})   # hand-picked precedence cases: never sampled away
    e_sel = select(ex, 240 if tier == "quick" else 6000, seed)
    P += pack(e_sel, "EXPR")
    lf = leaf_family()
    P += pack_leaf(select(lf, 180 if tier == "quick" else 3000, seed))
    P += pack(select(func_family(), 150 if tier == "quick" else None, seed), "FUNC")
    P += pack(select(cond_family(), 100 if tier == "quick" else None, seed), "COND", per=4)
    dg = dag_family(2 if tier == "quick" else 3, 2)
    P += select(dg, 40 if tier == "quick" else 600, seed)
    P += layout_family()
    P.append(wide_program(12))
    # a model without parameters (empty parameter tables in every backend)
    t = "states(x=1.0, y=2.0)\nu = x*y\ndx_dt = -x + u\ndy_dt = -y*u + 0.5\n"
    P.append({"family": "NOPARAM", "id": text_id(t), "text": t, "meta": {}})
    return P


# ---------------------------------------------------------------- componentise
def _top_split(s):
    out, depth, cur = [], 0, ""
    for ch in s:
        if ch in "([":
            depth += 1
        elif ch in ")]":
            depth -= 1
        if ch == "," and depth == 0:
            out.append(cur.strip())
            cur = ""
        else:
            cur += ch
    if cur.strip():
        out.append(cur.strip())
    return out


def componentise(text, k=2, seed=0):
    """Distribute the declarations of a single-component program (one-line parameters(...) / states(...) headers,
    one assignment per line) over k components; a state and its derivative stay together (the language requires it).
    Returns None when the text does not have that simple shape."""
    import hashlib
    import re
    params, states, lines = [], [], []
    for ln in text.strip().split("\n"):
        t = ln.strip()
        if not t or t.startswith("#"):
            continue
        m = re.match(r"^(parameters|states)\((.*)\)$", t)
        if m:
            if m.group(2).lstrip().startswith('"'):
                return None
            (params if m.group(1) == "parameters" else states).extend(_top_split(m.group(2)))
            continue
        m = re.match(r"^(\w+)\s*=\s*(.+)$", t)
        if not m or t.startswith(("expressions", "component")):
            return None
        lines.append((m.group(1), t))
    if not states:
        return None

    def h(name):
        return int(hashlib.sha1(f"{seed}:{name}".encode()).hexdigest(), 16)

    names = [f"C{j}" for j in range(k)]
    snames = [d.split("=")[0].strip() for d in states]
    comp_of = {}
    for j, sn in enumerate(snames):
        comp_of[sn] = names[(j + seed) % k]
        comp_of[f"d{sn}_dt"] = comp_of[sn]
    out = []
    for c in names:
        ps = [d for d in params if names[h(d.split("=")[0].strip()) % k] == c]
        ss = [d for d in states if comp_of[d.split("=")[0].strip()] == c]
        if ps:
            out.append(f'parameters("{c}", ' + ", ".join(ps) + ")")
        if ss:
            out.append(f'states("{c}", ' + ", ".join(ss) + ")")
    for c in names:
        body = [t for n, t in lines if comp_of.get(n, names[h(n) % k]) == c]
        if body:
            out.append(f'expressions("{c}")')
            out.extend(body)
    return "\n".join(out) + "\n"
