"""E4 - symbolic execution of emitted C through clang's LLVM IR (DESIGN 2.5)."""
from __future__ import annotations

import os
import re
import struct
import subprocess
import tempfile
from fractions import Fraction

import z3

from .smt import Ctx, RV, kappa_float
from .pysym import ArtefactError, Unsupported

CLANG = "clang-14"
IR_FLAGS = ["-S", "-emit-llvm", "-O1", "-fno-builtin", "-ffp-contract=off", "-fno-vectorize",
            "-fno-slp-vectorize", "-fno-unroll-loops", "-w"]

M_PI_BITS = 0x400921FB54442D18
M_E_BITS = 0x4005BF0A8B145769


class CompileError(Exception):
    def __init__(self, compiler, msg):
        super().__init__(f"{compiler}: {msg}")
        self.compiler = compiler
        self.msg = msg


def compile_check(code: str, workdir: str, compilers=("gcc", "clang-14")):
    """The 'compiles in default mode' half of C02. Returns list of (compiler, stderr) failures."""
    path = os.path.join(workdir, "model.c")
    with open(path, "w") as f:
        f.write(code)
    fails = []
    for cc in compilers:
        p = subprocess.run([cc, "-c", path, "-o", os.path.join(workdir, f"model_{cc}.o")],
                           capture_output=True, text=True)
        if p.returncode != 0:
            fails.append((cc, p.stderr[:2000]))
    return fails


def emit_ir(code: str, workdir: str) -> str:
    path = os.path.join(workdir, "model_ir.c")
    with open(path, "w") as f:
        f.write(code)
    out = os.path.join(workdir, "model.ll")
    p = subprocess.run([CLANG] + IR_FLAGS + ["-o", out, path], capture_output=True, text=True)
    if p.returncode != 0:
        raise CompileError(CLANG, p.stderr[:2000])
    with open(out) as f:
        return f.read()


def c_signatures(code: str) -> dict:
    """function name -> list of formal parameter names, from the C text."""
    sigs = {}
    for m in re.finditer(r"^\s*(?:void|int|double)\s+(\w+)\s*\(([^)]*)\)\s*\{?", code, re.M):
        name, args = m.group(1), m.group(2)
        names = []
        for a in args.split(","):
            a = a.strip()
            if not a:
                continue
            mm = re.search(r"(\w+)\s*(\[\s*\])?$", a)
            names.append(mm.group(1))
        sigs.setdefault(name, []).append(names)
    return sigs


# ----------------------------------------------------------------------------
# IR reader
# ----------------------------------------------------------------------------
class IRFunc:
    def __init__(self, name, rettype, args, blocks, order):
        self.name = name
        self.rettype = rettype
        self.args = args      # list of (type, regname)
        self.blocks = blocks  # label -> list of instruction strings
        self.order = order    # labels in textual order


class IRModule:
    def __init__(self, text: str):
        self.text = text
        self.strings = {}
        self.globals_int = {}
        self.funcs = {}
        self.dups = []
        self._parse()

    def _parse(self):
        lines = self.text.splitlines()
        i = 0
        while i < len(lines):
            ln = lines[i]
            m = re.match(r'^(@[\w.]+) = .*constant \[\d+ x i8\] c"(.*)\\00"', ln)
            if m:
                self.strings[m.group(1)] = _c_unescape(m.group(2))
                i += 1
                continue
            m = re.match(r"^@(\w+) = .*global i32 (-?\d+)", ln)
            if m:
                self.globals_int[m.group(1)] = int(m.group(2))
                i += 1
                continue
            m = re.match(r"^define .*? (void|i32|double) @(\w+)\((.*)\) .*\{\s*$", ln)
            if m:
                ret, name, argstr = m.groups()
                args = []
                for a in _split_args(argstr):
                    a = a.strip()
                    if not a:
                        continue
                    ty = a.split()[0]
                    reg = a.split()[-1]
                    args.append((ty, reg))
                entry = str(len(args))
                if args and not args[-1][1][1:].isdigit():
                    entry = "entry"
                blocks = {entry: []}
                order = [entry]
                cur = entry
                i += 1
                while not lines[i].startswith("}"):
                    l2 = lines[i].split(";")[0].rstrip() if not lines[i].lstrip().startswith(";") else ""
                    mm = re.match(r"^([\w.]+):", lines[i])
                    if mm:
                        cur = mm.group(1)
                        blocks[cur] = []
                        order.append(cur)
                    elif l2.strip():
                        blocks[cur].append(lines[i].strip())
                    i += 1
                if name in self.funcs:
                    self.dups.append(name)
                self.funcs[name] = IRFunc(name, ret, args, blocks, order)
            i += 1


def _c_unescape(s):
    return re.sub(r"\\([0-9A-Fa-f]{2})", lambda m: chr(int(m.group(1), 16)), s)


def _split_args(s):
    out, depth, cur = [], 0, ""
    for ch in s:
        if ch in "([":
            depth += 1
        elif ch in ")]":
            depth -= 1
        if ch == "," and depth == 0:
            out.append(cur)
            cur = ""
        else:
            cur += ch
    if cur.strip():
        out.append(cur)
    return out


class Ptr:
    def __init__(self, base, off=0):
        self.base = base  # arg name or '@.str.k'
        self.off = off


class IRExec:
    def __init__(self, ctx: Ctx, mod: IRModule, fname: str, argnames: list, index_maps: dict,
                 str_arg=None):
        self.ctx = ctx
        self.mod = mod
        self.f = mod.funcs[fname]
        self.argnames = argnames
        self.index_maps = index_maps  # 'state'/'parameter'/'missing' -> {name: idx}
        self.regs = {}
        self.stores = {}   # (base, off) -> term
        self.store_log = []
        self.str_arg = str_arg
        self.ret = None

    # ---- value helpers
    def const_double(self, tok):
        if tok.startswith("0x"):
            bits = int(tok, 16)
            if bits == M_PI_BITS:
                return self.ctx.pi
            if bits == M_E_BITS:
                return self.ctx.exp(RV(1))
            d = struct.unpack(">d", bits.to_bytes(8, "big"))[0]
        else:
            d = float(tok)
        if d != d or d in (float("inf"), float("-inf")):
            raise Unsupported(f"non-finite constant {tok}")
        import math
        c = self.ctx
        named = {math.sqrt(2.0): lambda: c.root(2, RV(2)), 1 / math.sqrt(2.0): lambda: 1 / c.root(2, RV(2)),
                 math.sqrt(0.5): lambda: 1 / c.root(2, RV(2)),
                 1 / math.pi: lambda: 1 / c.pi, 2 / math.pi: lambda: 2 / c.pi,
                 2 / math.sqrt(math.pi): lambda: 2 / c.root(2, c.pi), math.sqrt(3.0): lambda: c.root(2, RV(3))}
        if d in named:
            return named[d]()
        # constant-folded small rational multiples of M_PI (2*M_PI, M_PI/2, ...)
        if d != 0 and abs(d) < 64:
            q = Fraction(d / math.pi).limit_denominator(12)
            if q != 0 and abs(float(q) * math.pi - d) <= 2 * abs(math.nextafter(d, math.inf) - d):
                if kappa_float(d).denominator > 10**6:
                    return RV(q) * self.ctx.pi
        return RV(kappa_float(d))

    def val(self, ty, tok):
        tok = tok.strip()
        if tok.startswith("%"):
            if tok not in self.regs:
                raise Unsupported(f"unknown register {tok}")
            return self.regs[tok]
        if ty == "double":
            return self.const_double(tok)
        if ty == "i1":
            return z3.BoolVal(tok == "true" or tok == "1")
        if ty in ("i32", "i64"):
            return z3.IntVal(int(tok))
        if tok.startswith("getelementptr"):
            m = re.search(r"(@[\w.]+), i64 0, i64 (\d+)\)", tok)
            return Ptr(m.group(1), int(m.group(2)))
        if tok.startswith("@"):
            return Ptr(tok, 0)
        raise Unsupported(f"operand {ty} {tok}")

    def input_term(self, base, off):
        kind = {"states": ("state", "s_"), "parameters": ("parameter", "p_"),
                "missing_variables": ("missing", "m_")}.get(base)
        if kind is None:
            raise ArtefactError("BadLoad", f"load through pointer {base}")
        inv = {v: k for k, v in self.index_maps.get(kind[0], {}).items()}
        if off not in inv:
            raise ArtefactError("IndexError", f"{base}[{off}] has no name in the emitted index function")
        return self.ctx.inp(kind[1] + inv[off])

    # ---- execution
    def run(self):
        f = self.f
        c = self.ctx
        for (ty, reg), name in zip(f.args, self.argnames):
            if ty.startswith("double*"):
                self.regs[reg] = Ptr(name, 0)
            elif ty == "double":
                self.regs[reg] = c.inp({"t": "t", "dt": "dt"}.get(name, "arg_" + name))
            elif ty.startswith("i8*"):
                self.regs[reg] = ("strarg", self.str_arg)
            else:
                raise Unsupported(f"argument type {ty}")
        order = f.order
        pos = {l: i for i, l in enumerate(order)}
        cond = {order[0]: z3.BoolVal(True)}
        edges = {}   # (from, to) -> cond
        for label in order:
            if label not in cond:
                # unreachable or back-edge only
                cond[label] = z3.BoolVal(False)
            bc = cond[label]
            for ins in f.blocks[label]:
                self.instr(ins, label, bc, edges, cond, pos)
        return self

    def _add_edge(self, frm, to, ec, edges, cond, pos):
        if pos[to] <= pos[frm]:
            raise Unsupported("back edge (loop) in emitted function")
        edges[(frm, to)] = z3.simplify(ec)
        cond[to] = z3.simplify(z3.Or(cond[to], ec)) if to in cond else z3.simplify(ec)

    def instr(self, ins, label, bc, edges, cond, pos):
        c = self.ctx
        ins = re.sub(r",\s*!tbaa.*$", "", ins)
        ins = re.sub(r",\s*align \d+", "", ins)
        ins = re.sub(r"\s+#\d+$", "", ins)
        m = re.match(r"^(%[\w.]+) = (.*)$", ins)
        if m:
            dst, rhs = m.groups()
            self.regs[dst] = self.rhs(rhs, label, edges, cond)
            return
        if ins.startswith("store "):
            m = re.match(r"^store (\w+) (.+?), (\w+)\* (%[\w.]+)$", ins)
            if not m:
                raise Unsupported(ins)
            ty, v, _, p = m.groups()
            ptr = self.regs[p]
            val = self.val(ty, v)
            key = (ptr.base, ptr.off)
            old = self.stores.get(key)
            if z3.is_true(bc):
                self.stores[key] = val
            else:
                if old is None:
                    old = c.inp(f"undef_{ptr.base}_{ptr.off}")
                self.stores[key] = z3.If(bc, c.real(val), c.real(old))
            self.store_log.append(key)
            return
        if ins.startswith("br "):
            m = re.match(r"^br label %([\w.]+)$", ins)
            if m:
                self._add_edge(label, m.group(1), bc, edges, cond, pos)
                return
            m = re.match(r"^br i1 (.+?), label %([\w.]+), label %([\w.]+)$", ins)
            if m:
                cv = self.val("i1", m.group(1))
                self._add_edge(label, m.group(2), z3.And(bc, cv), edges, cond, pos)
                self._add_edge(label, m.group(3), z3.And(bc, z3.Not(cv)), edges, cond, pos)
                return
        if ins.startswith("ret "):
            m = re.match(r"^ret (\w+)(?: (.+))?$", ins)
            if m.group(1) != "void":
                v = self.val(m.group(1), m.group(2))
                self.ret = v if self.ret is None else z3.If(bc, v, self.ret)
            return
        if ins.startswith("call void @llvm.") or ins.startswith("tail call void @llvm."):
            return
        if ins == "unreachable":
            return
        raise Unsupported(f"instruction: {ins}")

    def rhs(self, rhs, label, edges, cond):
        c = self.ctx
        rhs = re.sub(r"^(tail |notail |musttail )", "", rhs)
        op = rhs.split()[0]
        FL = r"(?:(?:nnan|ninf|nsz|arcp|contract|afn|reassoc|fast)\s+)*"
        if op in ("fadd", "fsub", "fmul", "fdiv", "frem"):
            m = re.match(rf"^{op} {FL}double (.+?), (.+)$", rhs)
            a, b = self.val("double", m.group(1)), self.val("double", m.group(2))
            return {"fadd": c.add, "fsub": c.sub, "fmul": c.mul, "fdiv": c.div, "frem": c.truncmod}[op](a, b)
        if op == "fneg":
            m = re.match(rf"^fneg {FL}double (.+)$", rhs)
            return c.neg(self.val("double", m.group(1)))
        if op == "fcmp":
            m = re.match(rf"^fcmp {FL}(\w+) double (.+?), (.+)$", rhs)
            pred, a, b = m.groups()
            a, b = self.val("double", a), self.val("double", b)
            table = {"olt": "<", "ole": "<=", "ogt": ">", "oge": ">=", "oeq": "==", "one": "!=",
                     "ult": "<", "ule": "<=", "ugt": ">", "uge": ">=", "ueq": "==", "une": "!="}
            if pred == "true":
                return z3.BoolVal(True)
            if pred == "false":
                return z3.BoolVal(False)
            if pred == "ord":     # "neither operand is a NaN": reals have no NaN (DESIGN 2.6: floats are not modelled)
                return z3.BoolVal(True)
            if pred == "uno":
                return z3.BoolVal(False)
            if pred not in table:
                raise Unsupported(f"fcmp {pred}")
            return c.rel(table[pred], a, b)
        if op == "icmp":
            m = re.match(r"^icmp (\w+) (\w+) (.+?), (.+)$", rhs)
            pred, ty, a, b = m.groups()
            a, b = self.val(ty, a), self.val(ty, b)
            if ty == "i1":
                if pred == "eq":
                    return a == b
                if pred == "ne":
                    return a != b
            table = {"eq": lambda: a == b, "ne": lambda: a != b, "slt": lambda: a < b, "sle": lambda: a <= b,
                     "sgt": lambda: a > b, "sge": lambda: a >= b}
            if pred not in table:
                raise Unsupported(f"icmp {pred}")
            return table[pred]()
        if op == "select":
            m = re.match(rf"^select {FL}i1 (.+?), (\w+) (.+?), (\w+) (.+)$", rhs)
            cv, t1, a, t2, b = m.groups()
            cv = self.val("i1", cv)
            return z3.If(cv, self.val(t1, a), self.val(t2, b))
        if op in ("and", "or", "xor"):
            m = re.match(rf"^{op} (\w+) (.+?), (.+)$", rhs)
            ty, a, b = m.groups()
            if ty != "i1":
                raise Unsupported(f"{op} on {ty}")
            a, b = self.val(ty, a), self.val(ty, b)
            return {"and": z3.And, "or": z3.Or, "xor": z3.Xor}[op](a, b)
        if op in ("zext", "sext"):
            m = re.match(rf"^{op} (\w+) (.+?) to (\w+)$", rhs)
            ty, a, to = m.groups()
            v = self.val(ty, a)
            if ty == "i1":
                one = z3.IntVal(1) if op == "zext" else z3.IntVal(-1)
                return z3.If(v, one, z3.IntVal(0))
            return v
        if op in ("sitofp", "uitofp"):
            m = re.match(rf"^{op} (\w+) (.+?) to double$", rhs)
            ty, a = m.groups()
            v = self.val(ty, a)
            if ty == "i1":
                return z3.If(v, RV(1), RV(0)) if op == "uitofp" else z3.If(v, RV(-1), RV(0))
            return z3.ToReal(v)
        if op in ("add", "sub", "mul"):
            m = re.match(rf"^{op} (?:nsw |nuw )*(\w+) (.+?), (.+)$", rhs)
            ty, a, b = m.groups()
            a, b = self.val(ty, a), self.val(ty, b)
            return {"add": a + b, "sub": a - b, "mul": a * b}[op]
        if op == "sdiv":
            m = re.match(r"^sdiv (?:exact )?(\w+) (.+?), (.+)$", rhs)
            ty, a, b = m.groups()
            a, b = self.val(ty, a), self.val(ty, b)
            # C truncating division
            q = z3.ToInt(c.trunc(z3.ToReal(a) / z3.ToReal(b)))
            return q
        if op == "load":
            m = re.match(r"^load (\w+), \w+\* (%[\w.]+)$", rhs)
            if not m:
                raise Unsupported(rhs)
            ty, p = m.groups()
            ptr = self.regs[p]
            if ty != "double":
                raise Unsupported(f"load of {ty}")
            if not isinstance(ptr.off, int):
                # clang turned a select between two loads into a load from a selected address
                kind = {"states": "state", "parameters": "parameter", "missing_variables": "missing"}.get(ptr.base)
                if kind is None:
                    raise Unsupported(f"symbolic offset load from {ptr.base}")
                n = len(self.index_maps.get(kind, {}))
                res = None
                for j in reversed(range(n)):
                    tj = self.input_term(ptr.base, j)
                    res = tj if res is None else z3.If(ptr.off == j, tj, res)
                if res is None:
                    raise Unsupported("symbolic offset into empty array")
                return res
            key = (ptr.base, ptr.off)
            if key in self.stores:
                return self.stores[key]
            if ptr.base == "values":
                raise ArtefactError("UnsetRead", f"read of values[{ptr.off}] before it is written")
            return self.input_term(ptr.base, ptr.off)
        if op == "getelementptr":
            m = re.match(r"^getelementptr (?:inbounds )?double, double\* (%[\w.]+), i64 (-?\d+|%[\w.]+)$", rhs)
            if not m:
                raise Unsupported(rhs)
            base = self.regs[m.group(1)]
            if m.group(2).startswith("%"):
                return Ptr(base.base, base.off + self.regs[m.group(2)])
            return Ptr(base.base, base.off + int(m.group(2)))
        if op == "phi":
            m = re.match(rf"^phi {FL}(\w+) (.+)$", rhs)
            ty, rest = m.groups()
            inc = re.findall(r"\[ (.+?), %([\w.]+) \]", rest)
            res = None
            for v, frm in reversed(inc):
                ec = edges.get((frm, label))
                if ec is None:
                    continue
                tv = self.val(ty, v)
                res = tv if res is None else z3.If(ec, tv, res)
            if res is None:
                raise Unsupported("phi without executed incoming edge")
            return res
        if op == "call":
            m = re.match(rf"^call {FL}(\w+) @([\w.]+)\((.*)\)$", rhs)
            if not m:
                raise Unsupported(rhs)
            rty, fn, argstr = m.groups()
            args = []
            for a in _split_args(argstr):
                a = re.sub(r"\b(noundef|nonnull|readonly|nocapture)\b", "", a).strip()
                ty, tok = a.split(None, 1)
                args.append((ty, tok.strip()))
            return self.libcall(fn, args)
        if op == "freeze":
            m = re.match(r"^freeze (\w+) (.+)$", rhs)
            return self.val(m.group(1), m.group(2))
        raise Unsupported(f"instruction: {rhs}")

    def libcall(self, fn, args):
        c = self.ctx
        fn = re.sub(r"^llvm\.(\w+)\.f64$", r"\1", fn)
        if fn == "strcmp":
            a = self.val(args[0][0], args[0][1])
            b = self.val(args[1][0], args[1][1])
            if isinstance(b, tuple):
                a, b = b, a
            if not (isinstance(a, tuple) and a[0] == "strarg" and isinstance(b, Ptr)):
                raise Unsupported("strcmp operands")
            lit = self.mod.strings[b.base][b.off:]
            return z3.If(a[1] == z3.StringVal(lit), z3.IntVal(0), z3.IntVal(1))
        if fn == "strncmp":
            a = self.val(args[0][0], args[0][1])
            b = self.val(args[1][0], args[1][1])
            n = self.val(args[2][0], args[2][1])
            if isinstance(b, tuple):
                a, b = b, a
            if not (isinstance(a, tuple) and a[0] == "strarg" and isinstance(b, Ptr) and z3.is_int_value(n)):
                raise Unsupported("strncmp operands")
            k = n.as_long()
            lit = self.mod.strings[b.base][b.off:]
            if k > len(lit):
                # the terminating NUL takes part in the comparison: exact match
                return z3.If(a[1] == z3.StringVal(lit), z3.IntVal(0), z3.IntVal(1))
            return z3.If(z3.SubString(a[1], 0, k) == z3.StringVal(lit[:k]), z3.IntVal(0), z3.IntVal(1))
        if fn in ("strlen",):
            raise Unsupported("strlen")
        vals = [self.val(t, a) for t, a in args]
        one = {"exp": "exp", "log": "log", "sin": "sin", "cos": "cos", "tan": "tan", "asin": "asin",
               "acos": "acos", "atan": "atan", "sqrt": "sqrt", "fabs": "abs", "floor": "floor"}
        if fn in one:
            return c.fn(one[fn], vals[0])
        if fn == "pow":
            return c.pow(vals[0], vals[1])
        if fn == "fmod":
            return c.truncmod(vals[0], vals[1])
        if fn == "ceil":
            return -c.floor(-c.real(vals[0]))
        if fn == "trunc":
            return c.trunc(vals[0])
        if fn in ("fmin", "minnum"):
            return z3.If(vals[0] <= vals[1], vals[0], vals[1])
        if fn in ("fmax", "maxnum"):
            return z3.If(vals[0] >= vals[1], vals[0], vals[1])
        if fn == "copysign":
            return z3.If(vals[1] >= 0, c.abs(vals[0]), -c.abs(vals[0]))
        if fn == "exp2":
            return c.pow(RV(2), vals[0])
        if fn == "cbrt":
            return c.root(3, vals[0])
        raise Unsupported(f"call to {fn}")


class CModule:
    """Compiled view of one emitted C translation unit."""

    def __init__(self, code: str, workdir: str):
        self.code = code
        self.sigs = c_signatures(code)
        self.ir_text = emit_ir(code, workdir)
        self.ir = IRModule(self.ir_text)
        self._index_cache = {}

    def funcs(self):
        return list(self.ir.funcs)

    def index_term(self, fname, ctx: Ctx, strvar):
        ex = IRExec(ctx, self.ir, fname, ["name"], {}, str_arg=strvar)
        ex.run()
        return ex.ret

    def index_map(self, kind: str) -> dict:
        """Concrete table of the emitted <kind>_index function over the module's string literals."""
        fname = f"{kind}_index"
        if fname in self._index_cache:
            return self._index_cache[fname]
        if fname not in self.ir.funcs:
            self._index_cache[fname] = {}
            return {}
        ctx = Ctx()
        sv = z3.String("name")
        term = self.index_term(fname, ctx, sv)
        out = {}
        for lit in set(self.ir.strings.values()):
            v = z3.simplify(z3.substitute(term, (sv, z3.StringVal(lit))))
            if z3.is_int_value(v) and v.as_long() >= 0:
                out[lit] = v.as_long()
        self._index_cache[fname] = out
        return out

    def exec(self, ctx: Ctx, fname: str):
        sig = self.sigs.get(fname)
        if not sig:
            raise Unsupported(f"no C signature for {fname}")
        maps = {k: self.index_map(k) for k in ("state", "parameter", "missing")}
        ex = IRExec(ctx, self.ir, fname, sig[0], maps)
        ex.run()
        return ex
