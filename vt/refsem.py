"""E2 - independent reference semantics of the .ode language (DESIGN 2.3).

Written from docs/grammar.md and the property statements; imports nothing from
gotranx, lark or sympy.

AST (tuples):
  ('num', Fraction, text)      ('var', name)     ('pi',)
  ('neg', e) ('pos', e)        ('bin', op, a, b)  op in + - * / **
  ('call', fname, [args])      fname in FUNCS
  ('rel', op, a, b)            op in Lt Gt Le Ge Eq
  ('not', a) ('and', [..]) ('or', [..])
  ('cond', c, T, F)            ('ccond', relnode, T, F, sigma)
"""
from __future__ import annotations

import re
from fractions import Fraction

import z3

from .smt import Ctx, SymError, kappa_literal, RV

FUNCS = {"exp", "cos", "sin", "tan", "acos", "asin", "atan", "log", "ln", "sqrt", "abs", "Abs",
         "floor", "Mod"}
RELS = {"Lt", "Gt", "Le", "Ge", "Eq"}
LOGIC = {"Not", "And", "Or", "Conditional", "ContinuousConditional"} | RELS
TIME_NAMES = ("t", "time")


class RefError(Exception):
    pass


def _is_float_text(t: str) -> bool:
    return any(ch in t for ch in ".eE")


# ----------------------------------------------------------------------------
# tokenizer
# ----------------------------------------------------------------------------
_TOKEN = re.compile(r"""
    (?P<comment>\#[^\n]*)
  | (?P<num>(?:\d+\.\d*|\.\d+|\d+)(?:[eE][+-]?\d+)?)
  | (?P<name>[A-Za-z_][A-Za-z_0-9]*)
  | (?P<str>"(?:[^"\\]|\\.)*")
  | (?P<op>\*\*|[-+*/(),=~])
  | (?P<ws>\s+)
""", re.X)


def tokenize(text: str):
    pos = 0
    out = []
    while pos < len(text):
        m = _TOKEN.match(text, pos)
        if not m:
            raise RefError(f"cannot tokenize at {text[pos:pos+20]!r}")
        pos = m.end()
        k = m.lastgroup
        if k == "ws":
            continue
        out.append((k, m.group()))
    out.append(("eof", ""))
    return out


# ----------------------------------------------------------------------------
# parser
# ----------------------------------------------------------------------------
class Parser:
    def __init__(self, text: str):
        self.toks = tokenize(text)
        self.i = 0

    def peek(self, k=0):
        return self.toks[min(self.i + k, len(self.toks) - 1)]

    def next(self):
        t = self.toks[self.i]
        self.i += 1
        return t

    def expect(self, val):
        t = self.next()
        if t[1] != val:
            raise RefError(f"expected {val!r}, got {t!r}")
        return t

    # expression: term (('+'|'-') term)*
    def expression(self):
        e = self.term()
        while self.peek()[0] == "op" and self.peek()[1] in "+-":
            op = self.next()[1]
            e = ("bin", op, e, self.term())
        return e

    def term(self):
        e = self.factor()
        while self.peek()[0] == "op" and self.peek()[1] in "*/" and self.peek()[1] != "**":
            op = self.next()[1]
            e = ("bin", op, e, self.factor())
        return e

    def factor(self):
        t = self.peek()
        if t[0] == "op" and t[1] in "+-":
            self.next()
            inner = self.factor()
            return ("neg", inner) if t[1] == "-" else ("pos", inner)
        return self.power()

    def power(self):
        base = self.atom()
        if self.peek() == ("op", "**"):
            self.next()
            return ("bin", "**", base, self.factor())
        return base

    def atom(self):
        t = self.next()
        if t[0] == "num":
            return ("num", kappa_literal(t[1]), t[1])
        if t == ("op", "("):
            e = self.expression()
            self.expect(")")
            return e
        if t[0] == "name":
            name = t[1]
            if self.peek() == ("op", "(") and (name in FUNCS or name in LOGIC):
                self.next()
                args = []
                while self.peek() != ("op", ")"):
                    args.append(self.expression())
                    if self.peek() == ("op", ","):
                        self.next()
                self.expect(")")
                return self.make_call(name, args)
            if name == "pi":
                return ("pi",)
            return ("var", name)
        raise RefError(f"unexpected token {t!r}")

    @staticmethod
    def make_call(name, args):
        if name in RELS:
            if len(args) != 2:
                raise RefError(f"{name} takes 2 arguments")
            return ("rel", name, args[0], args[1])
        if name == "Not":
            return ("not", args[0])
        if name == "And":
            return ("and", args)
        if name == "Or":
            return ("or", args)
        if name == "Conditional":
            if len(args) != 3:
                raise RefError("Conditional takes 3 arguments")
            return ("cond", args[0], args[1], args[2])
        if name == "ContinuousConditional":
            if len(args) not in (3, 4):
                raise RefError("ContinuousConditional takes 3-4 arguments")
            sigma = args[3] if len(args) == 4 else ("num", Fraction(1), "1.0")
            return ("ccond", args[0], args[1], args[2], sigma)
        if name == "Mod":
            if len(args) != 2:
                raise RefError("Mod takes 2 arguments")
        elif len(args) != 1:
            raise RefError(f"{name} takes 1 argument")
        return ("call", name, args)

    # ---- model level --------------------------------------------------------
    def model(self) -> "Model":
        m = Model()
        comp = ("",)
        while self.peek()[0] != "eof":
            t = self.peek()
            if t[0] == "comment":
                self.next()
                continue
            if t[0] == "name" and t[1] in ("states", "parameters") and self.peek(1) == ("op", "("):
                kind = self.next()[1]
                self.next()
                comps = []
                while self.peek()[0] == "str":
                    comps.append(self.next()[1][1:-1])
                    if self.peek() == ("op", ","):
                        self.next()
                comps = tuple(comps) or ("",)
                while self.peek() != ("op", ")"):
                    name = self.next()
                    if name[0] != "name":
                        raise RefError(f"bad declaration {name!r}")
                    self.expect("=")
                    unit = desc = None
                    if self.peek() == ("name", "ScalarParam") and self.peek(1) == ("op", "("):
                        self.next()
                        self.next()
                        val = self.expression()
                        while self.peek() == ("op", ","):
                            self.next()
                            kw = self.next()[1]
                            self.expect("=")
                            s = self.next()[1][1:-1]
                            if kw == "unit":
                                unit = s
                            elif kw == "description":
                                desc = s
                        self.expect(")")
                    else:
                        val = self.expression()
                    m.declare(kind, name[1], val, comps, unit, desc)
                    if self.peek() == ("op", ","):
                        self.next()
                self.expect(")")
                continue
            if t[0] == "name" and t[1] in ("expressions", "component") and self.peek(1) == ("op", "("):
                self.next()
                self.next()
                comps = []
                while self.peek()[0] == "str":
                    comps.append(self.next()[1][1:-1])
                    if self.peek() == ("op", ","):
                        self.next()
                self.expect(")")
                comp = tuple(comps) or ("",)
                continue
            if t[0] == "name" and self.peek(1) == ("op", "="):
                name = self.next()[1]
                self.next()
                e = self.expression()
                m.assign(name, e, comp)
                if self.peek()[0] == "comment":
                    self.next()
                continue
            raise RefError(f"unexpected {t!r} at top level")
        return m


class Model:
    def __init__(self):
        self.states = {}      # name -> value ast
        self.params = {}
        self.assigns = {}     # name -> expr ast   (intermediates and derivatives)
        self.order = []       # textual order of assignments
        self.comp = {}        # name -> component tuple
        self.meta = {}        # name -> (unit, desc)
        self.dups = []

    def declare(self, kind, name, val, comps, unit, desc):
        d = self.states if kind == "states" else self.params
        if name in d or name in self.states or name in self.params:
            self.dups.append(name)
        d[name] = val
        self.comp[name] = comps
        self.meta[name] = (unit, desc)

    def assign(self, name, e, comp):
        if name in self.assigns:
            self.dups.append(name)
        self.assigns[name] = e
        self.order.append(name)
        self.comp[name] = comp

    # ---- classification
    def derivative_of(self, name):
        m = re.match(r"^d(\w+)_dt$", name)
        if m and m.group(1) in self.states:
            return m.group(1)
        return None

    @property
    def derivatives(self):
        return {n: self.derivative_of(n) for n in self.assigns if self.derivative_of(n)}

    @property
    def intermediates(self):
        return [n for n in self.assigns if not self.derivative_of(n)]

    def rate(self, state):
        return self.assigns[f"d{state}_dt"]

    def free_names(self, e, acc=None):
        acc = set() if acc is None else acc
        if e[0] == "var":
            acc.add(e[1])
        else:
            for c in e[1:]:
                if isinstance(c, tuple):
                    self.free_names(c, acc)
                elif isinstance(c, list):
                    for cc in c:
                        self.free_names(cc, acc)
        return acc

    def uses(self, name):
        return self.free_names(self.assigns[name])


def parse_model(text: str) -> Model:
    return Parser(text).model()


def parse_expr(text: str):
    p = Parser(text)
    e = p.expression()
    return e


# ----------------------------------------------------------------------------
# term semantics with definedness
# ----------------------------------------------------------------------------
class Evaluator:
    """Evaluate reference ASTs to z3 terms over a shared Ctx.

    `env` maps names to either z3 terms (free variables) or are looked up in
    the model (intermediates expand to their defining expression).  Domain
    conditions are accumulated in `self.dom` as implications guarded by the
    path condition of the conditional arms they occur in.
    """

    def __init__(self, ctx: Ctx, model: Model | None = None, env=None, missing=None,
                 hold_fixed=False):
        self.ctx = ctx
        self.model = model
        self.env = dict(env or {})
        self.dom = []
        self.cache = {}
        self.stack = []
        self.missing = missing  # callable name -> term for undefined names (sub models)
        self.hold_fixed = hold_fixed  # intermediates as free variables (C06 derivative)

    def name_term(self, name, guard):
        if name in self.env:
            return self.env[name]
        m = self.model
        declared = m is not None and (name in m.assigns or name in m.states or name in m.params)
        if name in TIME_NAMES and not declared:
            return self.ctx.inp("t")
        if m is not None:
            if name in m.states:
                return self.ctx.inp(f"s_{name}")
            if name in m.params:
                return self.ctx.inp(f"p_{name}")
            if name in m.assigns:
                if self.hold_fixed:
                    return self.ctx.inp(f"i_{name}")
                if name in self.stack:
                    raise RefError(f"cyclic definition through {name}")
                # NOTE: the domain conditions of an intermediate depend on the guard
                # under which it is used, so the cache is keyed by guard too.
                key = (name, guard.get_id() if guard is not None else None)
                if key in self.cache:
                    return self.cache[key]
                self.stack.append(name)
                v = self.ev(m.assigns[name], guard)
                self.stack.pop()
                self.cache[key] = v
                return v
        if self.missing is not None:
            return self.missing(name)
        raise RefError(f"undefined name {name}")

    def need(self, guard, cond):
        self.dom.append(cond if guard is None else z3.Implies(guard, cond))

    @staticmethod
    def conj(guard, c):
        return c if guard is None else z3.And(guard, c)

    def ev(self, e, guard=None):
        c = self.ctx
        k = e[0]
        if k == "num":
            return RV(e[1])
        if k == "pi":
            return c.pi
        if k == "var":
            return self.name_term(e[1], guard)
        if k == "neg":
            return c.neg(self.ev(e[1], guard))
        if k == "pos":
            return c.real(self.ev(e[1], guard))
        if k == "bin":
            op = e[1]
            a = self.ev(e[2], guard)
            b = self.ev(e[3], guard)
            if op == "+":
                return c.add(a, b)
            if op == "-":
                return c.sub(a, b)
            if op == "*":
                return c.mul(a, b)
            if op == "/":
                self.need(guard, c.real(b) != 0)
                return c.div(a, b)
            if op == "**":
                return self.pow(a, b, guard)
        if k == "call":
            f = e[1]
            args = [self.ev(x, guard) for x in e[2]]
            if f == "Mod":
                self.need(guard, c.real(args[1]) != 0)
                return c.floormod(args[0], args[1])
            a = c.real(args[0])
            arg_ast = e[2][0]
            if f == "sqrt" and arg_ast[0] == "num" and _is_float_text(arg_ast[2]) and arg_ast[1] >= 0:
                # a function of a float literal is folded to a double by the front end
                import math as _m
                from .smt import kappa_float
                return RV(kappa_float(_m.sqrt(float(arg_ast[2]))))
            if f in ("log", "ln"):
                self.need(guard, a > 0)
            elif f == "sqrt":
                self.need(guard, a >= 0)
            elif f in ("asin", "acos"):
                self.need(guard, z3.And(a >= -1, a <= 1))
            elif f == "tan":
                # cos(a) != 0
                self.need(guard, c.app("cos", a) != 0)
            return c.fn(f, a)
        if k == "rel":
            return c.rel(e[1], self.ev(e[2], guard), self.ev(e[3], guard))
        if k == "not":
            return c.not_(self.ev(e[1], guard))
        if k == "and":
            return c.and_(*[self.ev(x, guard) for x in e[1]])
        if k == "or":
            return c.or_(*[self.ev(x, guard) for x in e[1]])
        if k == "cond":
            cond = c.boolean(self.ev(e[1], guard))
            T = self.ev(e[2], self.conj(guard, cond))
            F = self.ev(e[3], self.conj(guard, z3.Not(cond)))
            return c.ite(cond, T, F)
        if k == "ccond":
            rel = e[1]
            if rel[0] != "rel" or rel[1] not in ("Lt", "Gt", "Le", "Ge"):
                raise RefError("ContinuousConditional needs an inequality")
            l = c.real(self.ev(rel[2], guard))
            r = c.real(self.ev(rel[3], guard))
            T = c.real(self.ev(e[2], guard))
            F = c.real(self.ev(e[3], guard))
            sg = c.real(self.ev(e[4], guard))
            self.need(guard, sg != 0)
            H = 1 / (1 + c.exp((l - r) / sg))  # -> 1 where l < r as sigma -> 0+
            w = H if rel[1] in ("Lt", "Le") else 1 - H
            return T * w + F * (1 - w)
        raise RefError(f"cannot evaluate {e!r}")

    def pow(self, a, b, guard):
        c = self.ctx
        a = c.real(a)
        b = c.real(b)
        bs = z3.simplify(b)
        if z3.is_rational_value(bs) or z3.is_int_value(bs):
            from .smt import numeral_value
            q = numeral_value(bs)
            if q.denominator == 1:
                if q < 0:
                    self.need(guard, a != 0)
            else:
                if q < 0:
                    self.need(guard, a > 0)
                else:
                    self.need(guard, a >= 0)
        else:
            as_ = z3.simplify(a)
            if not ((z3.is_rational_value(as_) or z3.is_int_value(as_))):
                self.need(guard, a > 0)
            else:
                from .smt import numeral_value
                if numeral_value(as_) <= 0:
                    self.need(guard, a > 0)
        return c.pow(a, b)


# ----------------------------------------------------------------------------
# differentiator on the reference AST
# ----------------------------------------------------------------------------
def N(q):
    q = Fraction(q)
    return ("num", q, str(q))


ZERO = N(0)
ONE = N(1)


def _is_zero(e):
    return e[0] == "num" and e[1] == 0


def _is_one(e):
    return e[0] == "num" and e[1] == 1


def mk_add(a, b):
    if _is_zero(a):
        return b
    if _is_zero(b):
        return a
    return ("bin", "+", a, b)


def mk_sub(a, b):
    if _is_zero(b):
        return a
    if _is_zero(a):
        return ("neg", b)
    return ("bin", "-", a, b)


def mk_mul(a, b):
    if _is_zero(a) or _is_zero(b):
        return ZERO
    if _is_one(a):
        return b
    if _is_one(b):
        return a
    return ("bin", "*", a, b)


def mk_div(a, b):
    if _is_zero(a):
        return ZERO
    if _is_one(b):
        return a
    return ("bin", "/", a, b)


class NotDifferentiable(Exception):
    pass


def depends_on(e, x, model: Model | None, expand: bool, _seen=None) -> bool:
    if e[0] == "var":
        if e[1] == x:
            return True
        if expand and model is not None and e[1] in model.assigns:
            return depends_on(model.assigns[e[1]], x, model, expand)
        return False
    for c in e[1:]:
        if isinstance(c, tuple) and depends_on(c, x, model, expand):
            return True
        if isinstance(c, list) and any(depends_on(cc, x, model, expand) for cc in c):
            return True
    return False


def diff(e, x: str, model: Model | None = None, expand: bool = False):
    """d e / d x on the reference AST.  With expand=False other names are held
    fixed (C06/C07); with expand=True intermediates are differentiated through
    (chain rule over the model, C20)."""
    k = e[0]
    if k in ("num", "pi"):
        return ZERO
    if k == "var":
        if e[1] == x:
            return ONE
        if expand and model is not None and e[1] in model.assigns:
            return diff(model.assigns[e[1]], x, model, expand)
        return ZERO
    if k == "neg":
        d = diff(e[1], x, model, expand)
        return ZERO if _is_zero(d) else ("neg", d)
    if k == "pos":
        return diff(e[1], x, model, expand)
    if k == "bin":
        op, a, b = e[1], e[2], e[3]
        da = diff(a, x, model, expand)
        db = diff(b, x, model, expand)
        if op == "+":
            return mk_add(da, db)
        if op == "-":
            return mk_sub(da, db)
        if op == "*":
            return mk_add(mk_mul(da, b), mk_mul(a, db))
        if op == "/":
            # a'/b - a b'/b^2
            return mk_sub(mk_div(da, b), mk_div(mk_mul(a, db), ("bin", "*", b, b)))
        if op == "**":
            if _is_zero(db):
                if _is_zero(da):
                    return ZERO
                # b * a**(b-1) * a'
                return mk_mul(mk_mul(b, ("bin", "**", a, ("bin", "-", b, ONE))), da)
            if _is_zero(da):
                return mk_mul(mk_mul(e, ("call", "log", [a])), db)
            return mk_mul(e, mk_add(mk_mul(db, ("call", "log", [a])), mk_div(mk_mul(b, da), a)))
    if k == "call":
        f = e[1]
        a = e[2][0]
        da = diff(a, x, model, expand)
        if f == "Mod":
            b = e[2][1]
            db = diff(b, x, model, expand)
            if _is_zero(da) and _is_zero(db):
                return ZERO
            raise NotDifferentiable("Mod of the variable")
        if _is_zero(da):
            return ZERO
        if f == "exp":
            return mk_mul(e, da)
        if f in ("log", "ln"):
            return mk_div(da, a)
        if f == "sin":
            return mk_mul(("call", "cos", [a]), da)
        if f == "cos":
            return mk_mul(("neg", ("call", "sin", [a])), da)
        if f == "tan":
            return mk_mul(mk_add(ONE, ("bin", "*", e, e)), da)
        if f == "sqrt":
            return mk_div(da, mk_mul(N(2), e))
        if f == "asin":
            return mk_div(da, ("call", "sqrt", [mk_sub(ONE, ("bin", "*", a, a))]))
        if f == "acos":
            return ("neg", mk_div(da, ("call", "sqrt", [mk_sub(ONE, ("bin", "*", a, a))])))
        if f == "atan":
            return mk_div(da, mk_add(ONE, ("bin", "*", a, a)))
        if f in ("abs", "Abs"):
            sgn = ("cond", ("rel", "Gt", a, ZERO), ONE, ("cond", ("rel", "Lt", a, ZERO), N(-1), ZERO))
            return mk_mul(sgn, da)
        if f == "floor":
            raise NotDifferentiable("floor of the variable")
    if k == "rel":
        return ZERO
    if k == "cond":
        dT = diff(e[2], x, model, expand)
        dF = diff(e[3], x, model, expand)
        if _is_zero(dT) and _is_zero(dF):
            return ZERO
        return ("cond", e[1], dT, dF)
    if k == "ccond":
        return diff(expand_ccond(e), x, model, expand)
    if k in ("not", "and", "or"):
        return ZERO
    raise NotDifferentiable(f"cannot differentiate {k}")


def expand_ccond(e):
    rel, T, F, sg = e[1], e[2], e[3], e[4]
    u = ("bin", "/", ("bin", "-", rel[2], rel[3]), sg)
    H = ("bin", "/", ONE, ("bin", "+", ONE, ("call", "exp", [u])))
    w = H if rel[1] in ("Lt", "Le") else ("bin", "-", ONE, H)
    return ("bin", "+", ("bin", "*", T, w), ("bin", "*", F, ("bin", "-", ONE, w)))


# ----------------------------------------------------------------------------
# numeric evaluator (replay only)
# ----------------------------------------------------------------------------
FORCE_BITS = [None]     # replay conditioning probe: evaluate with this binary precision instead of `prec` digits
EXTREME = [0.0, 1.0]    # largest / smallest non-zero magnitude of any intermediate value of the last numeric() call
NEAR_TIES: list = []   # diagnostics of the last numeric() call: comparisons / floors that almost tie (not exactly)


def numeric(e, env: dict, model: Model | None = None, prec=50):
    """Evaluate a reference AST at a concrete point with mpmath (replay only).
    env maps names to numbers; intermediates expand through `model`.

    Side channel NEAR_TIES: every comparison whose operands differ by less than 1e-9 relative without being
    equal, and every floor / Mod whose argument is that close to (but not on) an integer, is recorded.  At such
    a point a double-precision evaluation may legitimately land on the other side of the discontinuity, so a
    concrete disagreement there does not confirm a solver witness (core._replay_sat)."""
    import mpmath as mp

    mp.mp.dps = prec
    if FORCE_BITS[0]:
        mp.mp.prec = FORCE_BITS[0]
    del NEAR_TIES[:]
    EXTREME[0], EXTREME[1] = 0.0, 1.0

    def _mag(v):
        try:
            a = abs(v)
            if a > EXTREME[0]:
                EXTREME[0] = a
            if a != 0 and a < EXTREME[1]:
                EXTREME[1] = a
        except Exception:
            pass
        return v

    def _tie(a, b, what, ex=True):
        try:
            if a != b and abs(a - b) <= mp.mpf("1e-9") * (1 + abs(a) + abs(b)):
                # ... unless double arithmetic computes both operands without any rounding (an input compared with a
                # literal): then every correct artefact decides the comparison as the reals do, however close they are
                # (this is the witness an "equal within a tolerance" mutant needs)
                if not ex:
                    NEAR_TIES.append(what)
            elif a == b and not ex:
                # an exact tie between values that double arithmetic cannot compute exactly (2/0.2, 1/sqrt(100) vs 0.1):
                # the double evaluation lands on either side
                NEAR_TIES.append(what + " (exact tie of values that are not exact in double arithmetic)")
        except Exception:
            pass

    def _floor(a, what, ex=True):
        r = mp.floor(a)
        n = mp.nint(a)
        _tie(a, n, what, ex)
        return r

    exmemo = {}

    def exact(e):
        """True when double arithmetic computes this sub-expression without any rounding at this point."""
        k = id(e)
        if k not in exmemo:
            try:
                exmemo[k] = (e, exact0(e))
            except Exception:
                exmemo[k] = (e, False)
        return exmemo[k][1]

    def _rep(v):
        if isinstance(v, bool):
            return True
        try:
            return mp.mpf(float(v)) == v
        except Exception:
            return False

    def exact0(e):
        k = e[0]
        if k == "num":
            return _rep(val(e[1]))
        if k == "pi":
            return False
        if k == "var":
            n = e[1]
            if model is not None and n in model.assigns:
                return exact(model.assigns[n])
            return True
        if k in ("neg", "pos", "not"):
            return exact(e[1])
        if k == "bin":
            return exact(e[2]) and exact(e[3]) and _rep(ev(e))
        if k == "call":
            return all(exact(x) for x in e[2]) and _rep(ev(e))
        if k == "rel":
            return exact(e[2]) and exact(e[3])
        if k in ("and", "or"):
            return all(exact(x) for x in e[1])
        if k == "cond":
            return exact(e[1]) and exact(e[2] if truth(ev(e[1])) else e[3])
        return False

    def val(q):
        if isinstance(q, Fraction):
            return mp.mpf(q.numerator) / mp.mpf(q.denominator)
        return mp.mpf(q)

    evmemo = {}

    def ev(e):
        k = id(e)
        if k in evmemo:
            return evmemo[k][1]
        r = ev0(e)
        if isinstance(r, mp.mpc):
            # asin(5), log(-1), (-2)**0.5: the model has no real value here, whatever is done with the result later
            # (floor / abs / a product with 0 would turn it back into a real number)
            if r.imag != 0:
                raise RefError("complex intermediate value (outside the real domain)")
            r = r.real
        if not isinstance(r, bool):
            _mag(r)
        evmemo[k] = (e, r)      # keeps e alive: ids of temporaries (expand_ccond) must not be reused
        return r

    def ev0(e):
        k = e[0]
        if k == "num":
            return val(e[1])
        if k == "pi":
            return mp.pi
        if k == "var":
            n = e[1]
            # a name the model defines is that model quantity, even if it is called t / time
            if model is not None and n in model.assigns:
                return ev(model.assigns[n])
            declared = model is not None and (n in model.states or n in model.params)
            if n in TIME_NAMES and not declared:
                if "__time__" in env:
                    return val(env["__time__"])
                if "t" in env:
                    return val(env["t"])
            if n in env:
                return val(env[n])
            raise RefError(f"undefined {n}")
        if k == "neg":
            return -num(ev(e[1]))
        if k == "pos":
            return num(ev(e[1]))
        if k == "bin":
            a, b = num(ev(e[2])), num(ev(e[3]))
            op = e[1]
            if op == "+":
                return a + b
            if op == "-":
                return a - b
            if op == "*":
                return a * b
            if op == "/":
                return a / b
            if op == "**":
                r = mp.power(a, b)
                return r
        if k == "call":
            f = e[1]
            args = [num(ev(x)) for x in e[2]]
            if f == "Mod":
                return args[0] - args[1] * _floor(args[0] / args[1], "Mod", all(exact(x) for x in e[2]) and _rep(args[0] / args[1]))
            a = args[0]
            table = {"exp": mp.exp, "log": mp.log, "ln": mp.log, "sin": mp.sin, "cos": mp.cos,
                     "tan": mp.tan, "asin": mp.asin, "acos": mp.acos, "atan": mp.atan,
                     "sqrt": mp.sqrt, "abs": abs, "Abs": abs, "floor": (lambda q: _floor(q, "floor", exact(e[2][0])))}
            return table[f](a)
        if k == "rel":
            a, b = num(ev(e[2])), num(ev(e[3]))
            _tie(a, b, e[1], exact(e[2]) and exact(e[3]))
            return {"Lt": a < b, "Gt": a > b, "Le": a <= b, "Ge": a >= b, "Eq": a == b}[e[1]]
        if k == "not":
            return not truth(ev(e[1]))
        if k == "and":
            return all(truth(ev(x)) for x in e[1])
        if k == "or":
            return any(truth(ev(x)) for x in e[1])
        if k == "cond":
            return ev(e[2]) if truth(ev(e[1])) else ev(e[3])
        if k == "ccond":
            return ev(expand_ccond(e))
        raise RefError(f"numeric: {e!r}")

    def num(v):
        if isinstance(v, bool):
            return mp.mpf(1 if v else 0)
        return v

    def truth(v):
        if isinstance(v, bool):
            return v
        return v != 0

    r = num(ev(e))
    if isinstance(r, mp.mpc):
        if r.imag != 0:
            raise RefError("complex value (outside the real domain)")
        r = r.real
    return r
