"""E5 - SMT term layer (DESIGN 2.6).

Terms are z3 expressions over mathematical reals.  Applications of the
elementary functions (exp log sin cos tan asin acos atan root pow) are
*Ackermannised*: every application is replaced by a fresh real constant,
hash-consed on the z3 ids of its arguments, and `Ctx.side()` emits the
pairwise congruence implications plus a library of true lemmas.  The result is
QF_NRA (+LIA under floor) which z3's nlsat decides.  Dropping lemmas can only
turn `unsat` into `sat`, never the reverse, so `unsat` is sound.
"""
from __future__ import annotations

import math
import subprocess
import tempfile
import time
from collections import defaultdict
from fractions import Fraction

import z3

UNARY_FUNS = ("exp", "log", "sin", "cos", "tan", "asin", "acos", "atan")


# ----------------------------------------------------------------------------
# literal canonicaliser (kappa)
# ----------------------------------------------------------------------------
def _simplest_between(lo: Fraction, hi: Fraction) -> Fraction:
    """Simplest rational in the closed interval [lo, hi] (Stern-Brocot)."""
    if lo > hi:
        lo, hi = hi, lo
    if lo <= 0 <= hi:
        return Fraction(0)
    if hi < 0:
        return -_simplest_between(-hi, -lo)
    # 0 < lo <= hi
    fl = math.floor(lo)
    if fl == lo:
        return Fraction(fl)
    if fl + 1 <= hi:
        return Fraction(fl + 1)
    # same integer part
    rest = _simplest_between(1 / (hi - fl), 1 / (lo - fl))
    return fl + 1 / rest


def kappa_float(d: float) -> Fraction:
    """Round-trip canonical rational of a double: the simplest rational that
    rounds to `d` (strictly inside the half-ulp neighbourhood)."""
    if d != d or d in (math.inf, -math.inf):
        raise ValueError("non-finite literal")
    if d == 0:
        return Fraction(0)
    if d == int(d) and abs(d) < 2**53:
        return Fraction(int(d))
    f = Fraction(d)
    up = Fraction(math.nextafter(d, math.inf))
    dn = Fraction(math.nextafter(d, -math.inf))
    # window of +-4.5 ulp: compilers and sympy fold constant sub-expressions in
    # double arithmetic, which moves a "nice" constant by an ulp or two
    lo = f - (f - dn) * Fraction(9, 2)
    hi = f + (up - f) * Fraction(9, 2)
    return _simplest_between(lo, hi)


def kappa_literal(text: str) -> Fraction:
    """Canonical rational of a decimal / scientific literal as written."""
    text = text.strip()
    try:
        if all(c.isdigit() for c in text):
            return Fraction(int(text))
    except ValueError:
        pass
    return kappa_float(float(text))


def RV(q) -> z3.ArithRef:
    if isinstance(q, float):
        q = kappa_float(q)
    q = Fraction(q)
    return z3.RealVal(str(q))


def is_numeral(e) -> bool:
    return z3.is_rational_value(e) or z3.is_int_value(e)


def numeral_value(e) -> Fraction:
    if z3.is_int_value(e):
        return Fraction(e.as_long())
    return Fraction(e.numerator_as_long(), e.denominator_as_long())


def ground_value(fname, qs):
    """Ground application f(numerals): the correctly rounded double of the exact
    value, canonicalised (an extension of the literal canonicaliser: sympy and
    compilers fold such applications to doubles).  None when undefined."""
    import mpmath as mp

    mp.mp.dps = 60
    xs = [mp.mpf(q.numerator) / mp.mpf(q.denominator) for q in qs]
    try:
        if fname.startswith("root"):
            if xs[0] < 0:
                return None
            v = mp.root(xs[0], int(fname[4:]))
            # keep irrational roots symbolic (algebraic, handled exactly by the root lemma)
            k = int(fname[4:])
            r = Fraction(float(v)).limit_denominator(10**6)
            if r ** k != qs[0]:
                return None
            return r
        elif fname == "pow":
            if xs[0] <= 0:
                return None
            v = mp.power(xs[0], xs[1])
        else:
            if fname == "log" and xs[0] <= 0:
                return None
            if fname in ("asin", "acos") and abs(xs[0]) > 1:
                return None
            v = getattr(mp, fname)(xs[0])
        if isinstance(v, mp.mpc):
            return None
        d = float(v)
        if d != d or d in (math.inf, -math.inf):
            return None
        # exact small rationals (sqrt(4), exp(0), ...) stay exact
        return kappa_float(d)
    except Exception:
        return None


# ----------------------------------------------------------------------------
# context: hash-consed Ackermann table + builders
# ----------------------------------------------------------------------------
class SymError(Exception):
    """An artefact could not be encoded / is structurally wrong."""


class Ctx:
    def __init__(self):
        self.apps = {}            # (fname, ids) -> var
        self.by_fn = defaultdict(list)   # fname -> [(args, var)]
        self.var_info = {}        # var id -> (fname, args)
        self.pi = z3.Real("PI")
        self.counter = 0
        self.inputs = {}          # name -> z3 Real

    # ---- inputs
    def inp(self, name: str):
        if name not in self.inputs:
            self.inputs[name] = z3.Real(name)
        return self.inputs[name]

    # ---- Ackermannised application
    def app(self, fname: str, *args):
        args = tuple(z3.simplify(a) if not is_numeral(a) else a for a in args)
        if all(is_numeral(a) for a in args):
            g = ground_value(fname, [numeral_value(a) for a in args])
            if g is not None:
                return RV(g)
        key = (fname,) + tuple(a.get_id() for a in args)
        v = self.apps.get(key)
        if v is None:
            self.counter += 1
            v = z3.Real(f"{fname}!{self.counter}")
            self.apps[key] = v
            self.by_fn[fname].append((args, v))
            self.var_info[v.get_id()] = (fname, args)
        return v

    # ---- arithmetic builders ------------------------------------------------
    @staticmethod
    def real(e):
        """Coerce bool to 0/1 real."""
        if z3.is_bool(e):
            return z3.If(e, z3.RealVal(1), z3.RealVal(0))
        if z3.is_int(e):
            return z3.ToReal(e)
        return e

    @staticmethod
    def boolean(e):
        if z3.is_bool(e):
            return e
        return e != 0

    def add(self, a, b):
        return self.real(a) + self.real(b)

    def sub(self, a, b):
        return self.real(a) - self.real(b)

    def mul(self, a, b):
        return self.real(a) * self.real(b)

    def neg(self, a):
        return -self.real(a)

    def div(self, a, b):
        return self.real(a) / self.real(b)

    def powi(self, b, n: int):
        b = self.real(b)
        if n == 0:
            return z3.RealVal(1)
        if n < 0:
            return z3.RealVal(1) / self.powi(b, -n)
        r = None
        for _ in range(n):
            r = b if r is None else r * b
        return r

    def root(self, q: int, b):
        """Principal q-th root (b >= 0)."""
        b = self.real(b)
        if q == 1:
            return b
        return self.app(f"root{q}", b)

    def pow(self, b, e):
        b = self.real(b)
        e = self.real(e)
        es = z3.simplify(e)
        if is_numeral(es):
            q = numeral_value(es)
            if q.denominator == 1 and abs(q.numerator) <= 64:
                return self.powi(b, q.numerator)
            if q.denominator <= 8 and abs(q.numerator) <= 32:
                return self.powi(self.root(q.denominator, b), q.numerator)
        bs = z3.simplify(b)
        if is_numeral(bs) and numeral_value(bs) > 0 and numeral_value(bs) != 1:
            # c**e = exp(e*log c)
            return self.exp(e * self.log(bs))
        return self.app("pow", b, e)

    def sqrt(self, a):
        return self.root(2, a)

    def exp(self, a):
        a = self.real(a)
        return self.app("exp", a)

    def log(self, a):
        return self.app("log", self.real(a))

    def fn(self, name, a):
        if name == "exp":
            return self.exp(a)
        if name in ("log", "ln"):
            return self.log(a)
        if name == "sqrt":
            return self.sqrt(a)
        if name in ("abs", "Abs", "fabs"):
            return self.abs(a)
        if name == "floor":
            return self.floor(a)
        if name in UNARY_FUNS:
            return self.app(name, self.real(a))
        raise SymError(f"unknown function {name}")

    def abs(self, a):
        a = self.real(a)
        return z3.If(a >= 0, a, -a)

    def sign(self, a):
        a = self.real(a)
        return z3.If(a > 0, z3.RealVal(1), z3.If(a < 0, z3.RealVal(-1), z3.RealVal(0)))

    def floor(self, a):
        return z3.ToReal(z3.ToInt(self.real(a)))

    def trunc(self, a):
        a = self.real(a)
        return z3.If(a >= 0, self.floor(a), -self.floor(-a))

    def floormod(self, a, b):
        a = self.real(a)
        b = self.real(b)
        return a - b * self.floor(a / b)

    def truncmod(self, a, b):
        """C fmod: a - b*trunc(a/b)."""
        a = self.real(a)
        b = self.real(b)
        return a - b * self.trunc(a / b)

    def ite(self, c, a, b):
        c = self.boolean(c)
        if z3.is_bool(a) and z3.is_bool(b):
            return z3.If(c, a, b)
        return z3.If(c, self.real(a), self.real(b))

    def rel(self, op, a, b):
        a = self.real(a)
        b = self.real(b)
        if op in ("<", "Lt"):
            return a < b
        if op in ("<=", "Le"):
            return a <= b
        if op in (">", "Gt"):
            return a > b
        if op in (">=", "Ge"):
            return a >= b
        if op in ("==", "Eq"):
            return a == b
        if op in ("!=", "Ne"):
            return a != b
        raise SymError(f"unknown relation {op}")

    def and_(self, *cs):
        return z3.And(*[self.boolean(c) for c in cs])

    def or_(self, *cs):
        return z3.Or(*[self.boolean(c) for c in cs])

    def not_(self, c):
        return z3.Not(self.boolean(c))

    # ---- side constraints ---------------------------------------------------
    def _closure(self, exprs):
        """Ackermann variables reachable from `exprs` (through their args)."""
        seen_ast = set()
        found = {}
        stack = list(exprs)
        while stack:
            e = stack.pop()
            i = e.get_id()
            if i in seen_ast:
                continue
            seen_ast.add(i)
            if i in self.var_info:
                if i not in found:
                    found[i] = e
                    stack.extend(self.var_info[i][1])
                continue
            if z3.is_app(e):
                stack.extend(e.children())
        return found

    def side(self, exprs, congruence_only=False):
        """Congruence + lemma instances for all Ackermann vars reachable from exprs."""
        found = self._closure(exprs)
        by_fn = defaultdict(list)
        for i, v in found.items():
            fname, args = self.var_info[i]
            by_fn[fname].append((args, v))
        out = []
        R = z3.RealVal
        for fname, lst in by_fn.items():
            lst.sort(key=lambda t: t[1].get_id())
            # pairwise congruence
            for i in range(len(lst)):
                ai, vi = lst[i]
                for j in range(i + 1, len(lst)):
                    aj, vj = lst[j]
                    eq = z3.And(*[x == y for x, y in zip(ai, aj)])
                    out.append(z3.Implies(eq, vi == vj))
                    if congruence_only:
                        continue
                    if fname == "exp":
                        out.append(z3.Implies(ai[0] == -aj[0], vi * vj == 1))
                        out.append(z3.Implies(ai[0] == 2 * aj[0], vi == vj * vj))
                        out.append(z3.Implies(aj[0] == 2 * ai[0], vj == vi * vi))
                        out.append(z3.Implies(ai[0] == 3 * aj[0], vi == vj * vj * vj))
                        out.append(z3.Implies(aj[0] == 3 * ai[0], vj == vi * vi * vi))
                        out.append(z3.Implies(ai[0] < aj[0], vi < vj))
                        out.append(z3.Implies(ai[0] > aj[0], vi > vj))
                    elif fname == "log":
                        out.append(z3.Implies(z3.And(ai[0] > 0, aj[0] > 0, ai[0] < aj[0]), vi < vj))
                        out.append(z3.Implies(z3.And(ai[0] > 0, aj[0] > 0, ai[0] > aj[0]), vi > vj))
                        out.append(z3.Implies(z3.And(ai[0] > 0, ai[0] * aj[0] == 1), vi == -vj))
                    elif fname in ("sin", "tan", "asin", "atan"):
                        out.append(z3.Implies(ai[0] == -aj[0], vi == -vj))
                        if fname == "sin":      # shifts by pi / 2 pi; reflection about pi/2
                            out.append(z3.Implies(z3.Or(ai[0] - aj[0] == self.pi, aj[0] - ai[0] == self.pi), vi == -vj))
                            out.append(z3.Implies(z3.Or(ai[0] - aj[0] == 2 * self.pi, aj[0] - ai[0] == 2 * self.pi), vi == vj))
                            out.append(z3.Implies(ai[0] + aj[0] == self.pi, vi == vj))
                        if fname == "tan":
                            out.append(z3.Implies(z3.Or(ai[0] - aj[0] == self.pi, aj[0] - ai[0] == self.pi), vi == vj))
                    elif fname == "cos":
                        out.append(z3.Implies(ai[0] == -aj[0], vi == vj))
                        out.append(z3.Implies(z3.Or(ai[0] - aj[0] == self.pi, aj[0] - ai[0] == self.pi), vi == -vj))
                        out.append(z3.Implies(z3.Or(ai[0] - aj[0] == 2 * self.pi, aj[0] - ai[0] == 2 * self.pi), vi == vj))
                        out.append(z3.Implies(ai[0] + aj[0] == self.pi, vi == -vj))
                    elif fname.startswith("root"):
                        out.append(z3.Implies(z3.And(ai[0] >= 0, aj[0] >= 0, ai[0] < aj[0]), vi < vj))
                    elif fname == "pow":
                        out.append(z3.Implies(z3.And(ai[0] == aj[0], ai[0] > 0, ai[1] == -aj[1]), vi * vj == 1))
            if congruence_only:
                continue
            for args, v in lst:
                a = args[0]
                if fname == "exp":
                    out += [v > 0, z3.Implies(a == 0, v == 1), z3.Implies(a > 0, v > 1),
                            z3.Implies(a < 0, v < 1), v >= 1 + a]
                elif fname == "log":
                    out += [z3.Implies(a == 1, v == 0), z3.Implies(a > 1, v > 0),
                            z3.Implies(z3.And(a > 0, a < 1), v < 0),
                            z3.Implies(a > 0, v <= a - 1)]
                elif fname == "sin":
                    out += [v <= 1, v >= -1, z3.Implies(a == 0, v == 0), z3.Implies(a == self.pi, v == 0),
                            z3.Implies(2 * a == self.pi, v == 1), z3.Implies(2 * a == -self.pi, v == -1),
                            z3.Implies(a == 2 * self.pi, v == 0), z3.Implies(a == -self.pi, v == 0)]
                elif fname == "cos":
                    out += [v <= 1, v >= -1, z3.Implies(a == 0, v == 1), z3.Implies(a == self.pi, v == -1),
                            z3.Implies(2 * a == self.pi, v == 0), z3.Implies(2 * a == -self.pi, v == 0),
                            z3.Implies(a == 2 * self.pi, v == 1), z3.Implies(a == -self.pi, v == -1)]
                elif fname in ("tan", "asin", "atan"):
                    out += [z3.Implies(a == 0, v == 0)]
                    if fname == "tan":
                        out += [z3.Implies(a == self.pi, v == 0), z3.Implies(4 * a == self.pi, v == 1)]
                    if fname == "asin":
                        out += [z3.Implies(a == 1, 2 * v == self.pi)]
                    if fname == "atan":
                        out += [z3.Implies(a > 0, v > 0), z3.Implies(a < 0, v < 0), z3.Implies(a == 1, 4 * v == self.pi)]
                elif fname == "acos":
                    out += [z3.Implies(a == 1, v == 0), z3.Implies(a == 0, 2 * v == self.pi)]
                elif fname.startswith("root"):
                    q = int(fname[4:])
                    p = v
                    for _ in range(q - 1):
                        p = p * v
                    out += [z3.Implies(a >= 0, z3.And(v >= 0, p == a))]
                elif fname == "pow":
                    b, e = args
                    out += [z3.Implies(b > 0, v > 0), z3.Implies(z3.And(e == 0, b != 0), v == 1),
                            z3.Implies(e == 1, v == b)]
        if congruence_only:
            return out
        # cross lemmas exp/log
        for (ae, ve) in by_fn.get("exp", []):
            for (al, vl) in by_fn.get("log", []):
                out.append(z3.Implies(z3.And(al[0] > 0, ae[0] == vl), ve == al[0]))
                out.append(z3.Implies(al[0] == ve, vl == ae[0]))
        # sin^2+cos^2 = 1 on equal args
        for (as_, vs) in by_fn.get("sin", []):
            for (ac, vc) in by_fn.get("cos", []):
                out.append(z3.Implies(as_[0] == ac[0], vs * vs + vc * vc == 1))
                # quarter-period shifts: sin(u + pi/2) = cos(u), sin(u - pi/2) = -cos(u), sin(pi/2 - u) = cos(u)
                out.append(z3.Implies(2 * (as_[0] - ac[0]) == self.pi, vs == vc))
                out.append(z3.Implies(2 * (ac[0] - as_[0]) == self.pi, vs == -vc))
                out.append(z3.Implies(2 * (as_[0] + ac[0]) == self.pi, vs == vc))
            for (at, vt) in by_fn.get("tan", []):
                for (ac, vc) in by_fn.get("cos", []):
                    out.append(z3.Implies(z3.And(as_[0] == ac[0], at[0] == ac[0], vc != 0), vt * vc == vs))
        # pi enclosure
        out.append(self.pi > R("3.14159265358979323846264338327950288"))
        out.append(self.pi < R("3.14159265358979323846264338327950289"))
        return out


# ----------------------------------------------------------------------------
# queries
# ----------------------------------------------------------------------------
class Stats:
    def __init__(self):
        self.unsat = 0
        self.sat = 0
        self.unknown = 0
        self.solver_s = 0.0
        self.queries = 0
        self.second_opinion = 0
        self.second_disagree = 0
        self.errors = []

    def merge(self, other: "Stats"):
        for k in ("unsat", "sat", "unknown", "queries", "second_opinion", "second_disagree"):
            setattr(self, k, getattr(self, k) + getattr(other, k))
        self.solver_s += other.solver_s
        self.errors += other.errors

    def as_dict(self):
        return {k: getattr(self, k) for k in ("queries", "unsat", "sat", "unknown", "second_opinion",
                                                 "second_disagree")} | {"solver_s": round(self.solver_s, 3)}


def _model_value(m, v):
    val = m.eval(v, model_completion=True)
    if z3.is_rational_value(val):
        return Fraction(val.numerator_as_long(), val.denominator_as_long())
    if z3.is_int_value(val):
        return Fraction(val.as_long())
    if z3.is_algebraic_value(val):
        ap = val.approx(30)
        return Fraction(ap.numerator_as_long(), ap.denominator_as_long())
    try:
        return Fraction(str(val))
    except Exception:
        return Fraction(0)


def check(ctx: Ctx, hyps, goal_neg, timeout_ms=10000, stats: Stats | None = None,
          second_opinion=False, want_model=True):
    """Decide  hyps /\\ side  |=  not goal_neg.

    Returns (verdict, model_dict, info): verdict in {'unsat','sat','unknown'};
    on sat, model_dict maps input names -> Fraction.
    """
    hyps = [h for h in hyps if h is not None]
    formulas = list(hyps) + [goal_neg]
    t0 = time.time()
    # fast path: syntactically false goal after simplification
    g = z3.simplify(goal_neg)
    if z3.is_false(g):
        if stats:
            stats.queries += 1
            stats.unsat += 1
        return "unsat", None, {"ms": 0, "trivial": True}
    side = ctx.side(formulas)
    verdict = "unknown"
    model = None
    smt2 = None
    for attempt, tactic in enumerate(("default", "nlsat")):
        if tactic == "default":
            s = z3.Solver()
        else:
            s = z3.Tactic("qfnra-nlsat").solver() if not _has_int(formulas + side) else z3.Solver()
            if _has_int(formulas + side):
                break
        s.set("timeout", timeout_ms)
        for f in side:
            s.add(f)
        for h in hyps:
            s.add(h)
        s.add(goal_neg)
        if smt2 is None and second_opinion:
            smt2 = s.to_smt2()
        r = s.check()
        if r == z3.unsat:
            verdict = "unsat"
            break
        if r == z3.sat:
            verdict = "sat"
            if want_model:
                m = s.model()
                model = {n: _model_value(m, v) for n, v in ctx.inputs.items()}
                model["PI"] = _model_value(m, ctx.pi)
                strs = {}
                for d in m.decls():
                    if d.arity() == 0 and d.range() == z3.StringSort():
                        try:
                            strs[d.name()] = m[d].as_string()
                        except Exception:
                            pass
                if strs:
                    model["__strings__"] = strs
            break
    dt = time.time() - t0
    info = {"ms": int(dt * 1000), "side": len(side)}
    if stats:
        stats.queries += 1
        stats.solver_s += dt
        setattr(stats, verdict, getattr(stats, verdict) + 1)
    if second_opinion and smt2 is not None and verdict in ("sat", "unsat"):
        so = second_opinion_z3(smt2, timeout_s=max(5, timeout_ms // 1000))
        info["second"] = so
        if stats:
            stats.second_opinion += 1
            if so in ("sat", "unsat") and so != verdict:
                stats.second_disagree += 1
                stats.errors.append(f"second-opinion disagreement: z3-5.1={verdict} z3-4.8.12={so}")
            if so == "error":
                stats.errors.append("second-opinion (error line")
    return verdict, model, info


def _has_int(fs):
    seen = set()
    stack = list(fs)
    while stack:
        e = stack.pop()
        i = e.get_id()
        if i in seen:
            continue
        seen.add(i)
        if z3.is_app(e):
            k = e.decl().kind()
            if k in (z3.Z3_OP_TO_INT, z3.Z3_OP_TO_REAL, z3.Z3_OP_IS_INT):
                return True
            stack.extend(e.children())
    return False


def second_opinion_z3(smt2: str, timeout_s=10) -> str:
    """Re-decide an exported query with the system z3 4.8.12 binary."""
    with tempfile.NamedTemporaryFile("w", suffix=".smt2", delete=True) as f:
        f.write(smt2)
        if "(check-sat)" not in smt2:
            f.write("\n(check-sat)\n")
        f.flush()
        try:
            p = subprocess.run(["/usr/bin/z3", f"-T:{timeout_s}", f.name], capture_output=True,
                               text=True, timeout=timeout_s + 5)
        except subprocess.TimeoutExpired:
            return "timeout"
    out = p.stdout.strip().splitlines()
    if any("(error" in l for l in out):
        return "error"
    for l in out:
        if l.strip() in ("sat", "unsat", "unknown"):
            return l.strip()
    return "timeout"


def frac_to_float(q: Fraction) -> float:
    try:
        return float(q)
    except OverflowError:
        return math.inf if q > 0 else -math.inf


# ----------------------------------------------------------------------------
# concrete evaluation of a term (used to validate the encoders against the real artefacts)
# ----------------------------------------------------------------------------
class EvalError(Exception):
    pass


EVAL_TIES: list = []    # set by eval_term: the evaluation passed a (near) tie of a comparison or floor


def eval_term(ctx: Ctx, term, inputs: dict, prec=40):
    """Evaluate a z3 term built by this layer at concrete inputs (name -> number), interpreting
    Ackermann constants by the real elementary functions (mpmath).  Raises EvalError outside the domain."""
    import mpmath as mp

    mp.mp.dps = prec
    cache = {}
    del EVAL_TIES[:]

    def tie(a, b):
        # a discontinuity (comparison / floor) whose operands (almost) tie: doubles may land on the other side
        try:
            if abs(a - b) <= mp.mpf("1e-9") * (1 + abs(a) + abs(b)):
                EVAL_TIES.append(1)
        except Exception:
            pass

    def ev(e):
        i = e.get_id()
        if i in cache:
            return cache[i]
        r = ev1(e)
        cache[i] = r
        return r

    def ev1(e):
        if z3.is_rational_value(e):
            return mp.mpf(e.numerator_as_long()) / mp.mpf(e.denominator_as_long())
        if z3.is_int_value(e):
            return mp.mpf(e.as_long())
        if z3.is_true(e):
            return True
        if z3.is_false(e):
            return False
        if e.get_id() in ctx.var_info:
            fname, args = ctx.var_info[e.get_id()]
            xs = [ev(a) for a in args]
            try:
                if fname.startswith("root"):
                    if xs[0] < 0:
                        raise EvalError("root of negative")
                    return mp.root(xs[0], int(fname[4:]))
                if fname == "pow":
                    r = mp.power(xs[0], xs[1])
                elif fname == "log":
                    if xs[0] <= 0:
                        raise EvalError("log of non-positive")
                    r = mp.log(xs[0])
                else:
                    r = getattr(mp, fname)(xs[0])
            except (ValueError, ZeroDivisionError) as ex:
                raise EvalError(str(ex))
            if isinstance(r, mp.mpc):
                raise EvalError("complex")
            return r
        if z3.is_const(e):
            n = e.decl().name()
            if n == "PI":
                return mp.pi
            if n in inputs:
                v = inputs[n]
                return mp.mpf(v.numerator) / mp.mpf(v.denominator) if isinstance(v, Fraction) else mp.mpf(v)
            raise EvalError(f"no value for {n}")
        k = e.decl().kind()
        ch = e.children()
        if k == z3.Z3_OP_ADD:
            return sum((ev(c) for c in ch), mp.mpf(0))
        if k == z3.Z3_OP_SUB:
            r = ev(ch[0])
            for c in ch[1:]:
                r = r - ev(c)
            return r
        if k == z3.Z3_OP_UMINUS:
            return -ev(ch[0])
        if k == z3.Z3_OP_MUL:
            r = mp.mpf(1)
            for c in ch:
                r = r * ev(c)
            return r
        if k in (z3.Z3_OP_DIV, z3.Z3_OP_IDIV):
            d = ev(ch[1])
            if d == 0:
                raise EvalError("division by zero")
            return ev(ch[0]) / d
        if k == z3.Z3_OP_ITE:
            return ev(ch[1]) if ev(ch[0]) else ev(ch[2])
        if k == z3.Z3_OP_TO_REAL:
            return ev(ch[0])
        if k == z3.Z3_OP_TO_INT:
            x = ev(ch[0])
            tie(x, mp.nint(x))
            return mp.floor(x)
        if k in (z3.Z3_OP_LT, z3.Z3_OP_LE, z3.Z3_OP_GT, z3.Z3_OP_GE, z3.Z3_OP_EQ, z3.Z3_OP_DISTINCT):
            a, b = ev(ch[0]), ev(ch[1])
            if not isinstance(a, bool) and not isinstance(b, bool):
                tie(a, b)
            if k == z3.Z3_OP_LT:
                return a < b
            if k == z3.Z3_OP_LE:
                return a <= b
            if k == z3.Z3_OP_GT:
                return a > b
            if k == z3.Z3_OP_GE:
                return a >= b
            if k == z3.Z3_OP_EQ:
                return a == b
            return a != b
        if k == z3.Z3_OP_AND:
            return all(ev(c) for c in ch)
        if k == z3.Z3_OP_OR:
            return any(ev(c) for c in ch)
        if k == z3.Z3_OP_NOT:
            return not ev(ch[0])
        if k == z3.Z3_OP_POWER:
            return mp.power(ev(ch[0]), ev(ch[1]))
        raise EvalError(f"cannot evaluate {e.decl().name()}")

    r = ev(term)
    if isinstance(r, bool):
        return mp.mpf(1 if r else 0)
    return r
