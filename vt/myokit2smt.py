"""E4c - Myokit expression tree -> term (reference for C15). Walks Myokit's OWN trees; variables are
inlined by variable object: states -> s_<name>, literal constants -> p_<name>, other variables expand."""
from __future__ import annotations

from fractions import Fraction

import z3

from .pysym import Unsupported
from .smt import Ctx, RV, kappa_float


class MyoRef:
    def __init__(self, ctx: Ctx, model, name_of, is_param=None):
        """name_of: myokit.Variable -> name used for the symbolic input of a state / constant.
        is_param: myokit.Variable -> bool, whether a literal constant is a free parameter of the
        artefact (else its literal value is used: the importer may keep it as an intermediate)."""
        self.ctx = ctx
        self.model = model
        self.name_of = name_of
        self.is_param = is_param or (lambda v: True)
        self.dom = []
        self.stack = []

    def need(self, guard, cond):
        self.dom.append(cond if guard is None else z3.Implies(guard, cond))

    @staticmethod
    def conj(g, c):
        return c if g is None else z3.And(g, c)

    def var_term(self, var, guard):
        c = self.ctx
        if var.binding() == "time":
            return c.inp("t")
        if var.is_state():
            return c.inp("s_" + self.name_of(var))
        rhs = var.rhs()
        if rhs.is_literal() and not rhs.references() and self.is_param(var):
            # a constant (gotranx parameter)
            return c.inp("p_" + self.name_of(var))
        if var in self.stack:
            raise Unsupported("cyclic myokit variable")
        self.stack.append(var)
        try:
            return self.ev(rhs, guard)
        finally:
            self.stack.pop()

    def rate(self, var, guard=None):
        return self.ev(var.rhs(), guard)

    def ev(self, e, guard=None):
        import myokit as mk

        c = self.ctx
        if isinstance(e, mk.Number):
            return RV(kappa_float(float(e.eval())))
        if isinstance(e, mk.Derivative):
            return c.real(self.rate(e.var(), guard))
        if isinstance(e, mk.Name):
            return self.var_term(e.var(), guard)
        k = type(e).__name__
        ops = list(e)
        if k == "PrefixPlus":
            return c.real(self.ev(ops[0], guard))
        if k == "PrefixMinus":
            return c.neg(self.ev(ops[0], guard))
        if k in ("Plus", "Minus", "Multiply", "Divide"):
            a, b = self.ev(ops[0], guard), self.ev(ops[1], guard)
            if k == "Divide":
                self.need(guard, c.real(b) != 0)
            return {"Plus": c.add, "Minus": c.sub, "Multiply": c.mul, "Divide": c.div}[k](a, b)
        if k == "Power":
            a, b = c.real(self.ev(ops[0], guard)), c.real(self.ev(ops[1], guard))
            bs = z3.simplify(b)
            if not (z3.is_rational_value(bs) or z3.is_int_value(bs)):
                self.need(guard, a > 0)
            else:
                from .smt import numeral_value
                q = numeral_value(bs)
                if q.denominator == 1:
                    if q < 0:
                        self.need(guard, a != 0)
                elif q < 0:
                    self.need(guard, a > 0)
                else:
                    self.need(guard, a >= 0)
            return c.pow(a, b)
        if k == "Sqrt":
            a = c.real(self.ev(ops[0], guard))
            self.need(guard, a >= 0)
            return c.sqrt(a)
        if k == "Exp":
            return c.exp(self.ev(ops[0], guard))
        if k == "Log":
            a = c.real(self.ev(ops[0], guard))
            self.need(guard, a > 0)
            if len(ops) == 2:
                b = c.real(self.ev(ops[1], guard))
                self.need(guard, b > 0)
                return c.log(a) / c.log(b)
            return c.log(a)
        if k == "Log10":
            a = c.real(self.ev(ops[0], guard))
            self.need(guard, a > 0)
            return c.log(a) / c.log(RV(10))
        table = {"Sin": "sin", "Cos": "cos", "Tan": "tan", "ASin": "asin", "ACos": "acos", "ATan": "atan"}
        if k in table:
            return c.fn(table[k], self.ev(ops[0], guard))
        if k == "Floor":
            return c.floor(self.ev(ops[0], guard))
        if k == "Ceil":
            return -c.floor(-c.real(self.ev(ops[0], guard)))
        if k == "Abs":
            return c.abs(self.ev(ops[0], guard))
        if k == "Quotient":
            a, b = self.ev(ops[0], guard), self.ev(ops[1], guard)
            self.need(guard, c.real(b) != 0)
            return c.floor(c.div(a, b))
        if k == "Remainder":
            a, b = self.ev(ops[0], guard), self.ev(ops[1], guard)
            self.need(guard, c.real(b) != 0)
            return c.floormod(a, b)
        rel = {"Equal": "==", "NotEqual": "!=", "More": ">", "Less": "<", "MoreEqual": ">=", "LessEqual": "<="}
        if k in rel:
            return c.rel(rel[k], self.ev(ops[0], guard), self.ev(ops[1], guard))
        if k == "And":
            return c.and_(self.ev(ops[0], guard), self.ev(ops[1], guard))
        if k == "Or":
            return c.or_(self.ev(ops[0], guard), self.ev(ops[1], guard))
        if k == "Not":
            return c.not_(self.ev(ops[0], guard))
        if k == "If":
            cond = c.boolean(self.ev(e.condition(), guard))
            T = self.ev(e.value(True), self.conj(guard, cond))
            F = self.ev(e.value(False), self.conj(guard, z3.Not(cond)))
            return c.ite(cond, T, F)
        if k == "Piecewise":
            pieces = list(e)
            n = len(pieces) // 2
            conds = pieces[:n]
            vals = pieces[n:]
            # myokit stores operands as (c1..cn, v1..vn, velse)? use the public accessors instead
            conds = list(e.conditions())
            vals = list(e.pieces())
            g = guard
            terms = []
            for cnd, v in zip(conds, vals[:-1]):
                ct = c.boolean(self.ev(cnd, g))
                terms.append((ct, self.ev(v, self.conj(g, ct))))
                g = self.conj(g, z3.Not(ct))
            res = self.ev(vals[-1], g)
            for ct, vt in reversed(terms):
                res = c.ite(ct, vt, res)
            return res
        raise Unsupported(f"myokit node {k}")
