"""Drive the REAL gotranx pipeline from /repo's current working tree."""
from __future__ import annotations

import logging
import os
import warnings

_configured = False


def quiet():
    global _configured
    if _configured:
        return
    import structlog
    import gotranx  # noqa: F401  (gotranx/__init__ reconfigures structlog at import)

    structlog.configure(wrapper_class=structlog.make_filtering_bound_logger(logging.CRITICAL))
    warnings.filterwarnings("ignore")
    _configured = True


def load(text: str, name="ode"):
    quiet()
    from gotranx.load import ode_from_string

    return ode_from_string(text, name=name)


def scheme_enums(names):
    from gotranx.schemes import Scheme

    return [Scheme(n) for n in names] if names else None


def gen_py(ode, backend="numpy", schemes=None, remove_unused=False, delta=1e-8, stiff_states=None,
           missing_values=None, shape=None):
    quiet()
    from gotranx.cli import gotran2py
    from gotranx.codegen.base import Shape

    extra = {}
    if shape is not None:
        extra["shape"] = Shape(shape)

    return gotran2py.get_code(
        ode,
        scheme=scheme_enums(schemes),
        format=gotran2py.Format.none,
        remove_unused=remove_unused,
        missing_values=missing_values,
        delta=delta,
        stiff_states=stiff_states,
        backend=gotran2py.Backend(backend),
        **extra,
    )


def gen_py_generator(ode, backend="numpy", rhs_kwargs=None, monitor_kwargs=None, remove_unused=False):
    """Module assembled from the code generator's own methods (as get_code does), with options of rhs / monitor_values
    that get_code does not expose (use_cse, order)."""
    quiet()
    from gotranx.codegen import PythonCodeGenerator, JaxCodeGenerator, PythonFormat

    cls = PythonCodeGenerator if backend == "numpy" else JaxCodeGenerator
    cg = cls(ode, format=PythonFormat.none, remove_unused=remove_unused)
    comp = [cg.imports(), cg.parameter_index(), cg.state_index(), cg.monitor_index(), cg.missing_index(),
            cg.initial_parameter_values(), cg.initial_state_values(), cg.rhs(**(rhs_kwargs or {})),
            cg.monitor_values(**(monitor_kwargs or {}))]
    return "\n".join(comp)


def gen_c(ode, schemes=None, remove_unused=False, delta=1e-8, stiff_states=None, missing_values=None):
    quiet()
    from gotranx.cli import gotran2c

    return gotran2c.get_code(
        ode,
        scheme=scheme_enums(schemes),
        format=gotran2c.Format.none,
        remove_unused=remove_unused,
        missing_values=missing_values,
        delta=delta,
        stiff_states=stiff_states,
    )


def repo_head():
    import subprocess

    try:
        return subprocess.run(["git", "-C", "/repo", "rev-parse", "HEAD"], capture_output=True, text=True).stdout.strip()
    except Exception:
        return "unknown"
