"""C03 - generated JAX code: same values, full-size outputs."""
from __future__ import annotations

from .. import families, checks
from ..core import Prog, witness_tasks, text_id

PROP = "C03"
TASK_LIMIT = 600
LEVEL = "translation_validation"
RULE = ("C01 program universe generated with backend=jax; every function of the emitted module is executed "
        "symbolically in the JAX dialect (functional _values_i, returned array literal, python control flow on traced "
        "values is an error); non-trivial = a slot obligation needed a real solver query")
FUNCTIONS = ["gotranx.cli.gotran2py.get_code(backend=jax)", "JaxPrinter._print_Assignment", "templates/jax.py method/init_*",
             "emitted rhs, monitor_values, missing_values, explicit_euler, generalized_rush_larsen, init_*"]
ASSUME = ["XLA numerics are outside the claim; jit-traceability is decided by typing python-level branching on traced values as an error (validated against real jax on witnesses)",
          "replay imports the really emitted module under jax_enable_x64 in a subprocess (jitted)"]

SPLIT = ('parameters("A", a=0.5)\nparameters("B", b=2.0)\nstates("A", x=1.0)\nstates("B", y=2.0, z=0.5)\n'
         'expressions("A")\nia = a*x + y\ndx_dt = -ia + z\n'
         'expressions("B")\nib = b*y - x\ndy_dt = ib/b\ndz_dt = -z + ib\n')


def tasks(tier, seed):
    V = families.value_programs(tier, seed)
    if tier == "quick":
        V = families.select(V, 110, seed) + families.corpus(["lorentz.ode", "beeler_reuter_1977.ode"])
    else:
        V = V + families.corpus()
    from .. import gen
    V = V + gen.programs(tier, seed, 120, 1500, "std") + gen.programs(tier, seed, 60, 600, "full")
    out = [dict(p, opts={}) for p in V]
    # remove_unused on the JAX backend: every function (monitor_values too) must still return full-size, defined arrays
    from . import c12
    for t in c12.UNUSED:
        out.append({"family": "UNUSED", "id": text_id(t, "jax-ru"), "text": t, "opts": {"remove_unused": True}})
    for k, p in enumerate(o for o in list(out) if o["family"] == "GEN"):
        if k % 6 == 0:
            out.append(dict(p, id=p["id"] + "|ru", opts={"remove_unused": True}))
    out.append({"family": "SPLIT", "id": text_id(SPLIT), "text": SPLIT, "opts": {"split": "A"}})
    out.append({"family": "SPLIT", "id": text_id(SPLIT + "B"), "text": SPLIT, "opts": {"split": "B"}})
    from . import c13
    for text in c13.MODELS:
        import re
        for comp in sorted(set(re.findall(r'expressions\("([^"]+)"\)', text))):
            out.append({"family": "SPLIT", "id": text_id(text, "jax-" + comp), "text": text, "opts": {"split": comp}})
    # every scheme option reaches the JAX module: hybrid Rush-Larsen with stiff states and a non-default delta
    from . import c07
    for k, (text, S, delta) in enumerate([(c07.MODELS[0], ["x", "z"], 0.05), (c07.MODELS[2], ["m"], 0.5), (c07.MODELS[6], ["y"], 0.0),
                                          (c07.MODELS[4], ["b"], 0.05)]):
        out.append({"family": "HYBJAX", "id": text_id(text, [S, delta]), "text": text,
                    "opts": {"stiff": S, "backends": ["jax"], "delta": delta, "hybrid": True}})
    return out + witness_tasks(PROP)


def work(task):
    if task.get("opts", {}).get("hybrid"):
        from . import c07
        return c07.work(task, prop=PROP)
    prog = Prog(PROP, task, timeout_ms=10000 if task["family"] != "CORPUS" else 20000)
    m, ode = checks.load_all(prog, task["text"])
    if ode is None:
        return prog.result()
    o = task.get("opts", {})
    if o.get("split"):
        return work_split(prog, m, ode, o["split"])
    if o.get("remove_unused"):
        vr = checks.make_view(prog, ode, "jax", label="jax|get_code|remove_unused", schemes=["explicit_euler"], remove_unused=True)
        if vr is None:
            return prog.result()
        checks.check_length(prog, vr, "rhs", len(m.states), "one entry per state")
        checks.check_length(prog, vr, "monitor_values", len(m.assigns), "one entry per monitored quantity")
        checks.check_rhs_monitor(prog, vr, m, tag="|ru")
        checks.check_euler(prog, vr, m, tag="|ru")
        prog.nontrivial = True
        return prog.result()
    schemes = ["explicit_euler", "generalized_rush_larsen"]
    view = checks.make_view(prog, ode, "jax", schemes=schemes)
    if view is None:
        prog2 = Prog(PROP, task)
        view = checks.make_view(prog2, ode, "jax", schemes=["explicit_euler"])
        if view is None:
            return prog.result()
        prog.violations = []
        prog.obligations = 0
        schemes = ["explicit_euler"]
    # every function the NumPy backend offers exists
    npview = checks.make_view(prog, ode, "numpy", schemes=schemes)
    if npview is not None:
        for fn in npview.functions():
            prog.fact(f"jax|exists|{fn}", view.has(fn), "MissingFunction", f"numpy backend offers {fn}, jax module does not")
    checks.check_length(prog, view, "rhs", len(m.states), "one entry per state")
    checks.check_length(prog, view, "monitor_values", len(m.assigns), "one entry per monitored quantity")
    cut = checks.check_rhs_monitor(prog, view, m)
    checks.check_init_defaults(prog, view, m)
    checks.check_euler(prog, view, m)
    if "generalized_rush_larsen" in schemes and task["family"] != "CORPUS":
        checks.check_grl(prog, view, m, 1e-8, cut=cut)
    if task["family"] in ("LAYOUT", "CORPUS") or task.get("opts", {}).get("real_jax"):
        real_jax_runs(prog, view, m)
    prog.nontrivial = prog.stats.solver_s > 0
    return prog.result()


def real_jax_runs(prog, view, m):
    """The module must import and run for real, jitted and un-jitted, and agree with the reference (statement of C03)."""
    from .. import refsem
    from ..core import differs
    inp = checks.sample_inputs(view, m)
    env = checks.env_from_inputs(m, inp)
    for fn, kind, names in (("rhs", "state", [n for n in m.assigns if m.derivative_of(n)]), ("monitor_values", "monitor", list(m.assigns))):
        imap = view.index_map(kind)
        for disable in (False, True):
            tag = "unjitted" if disable else "jitted"
            try:
                out = view.concrete_jax(fn, inp, disable_jit=disable)
            except Exception as e:
                import subprocess as _sp
                if isinstance(e, _sp.TimeoutExpired):
                    prog.skip(f"jax|real|{fn}|{tag}", "the jax subprocess did not finish within its wall limit (machine load)")
                    continue
                prog.fact(f"jax|real|{fn}|{tag}", False, "JaxRunFailed", f"{fn} ({tag}) failed for real: {type(e).__name__}: {str(e)[-300:]}")
                continue
            bad = []
            for n in names:
                key = m.derivative_of(n) if kind == "state" else n
                try:
                    ref = refsem.numeric(m.assigns[n], env, m)
                except Exception:
                    continue
                if key in imap and imap[key] < len(out) and differs(out[imap[key]], ref, tol=1e-8):
                    bad.append((n, out[imap[key]], float(ref)))
            prog.fact(f"jax|real|{fn}|{tag}", not bad and len(out) == len(imap), "JaxValuesDiffer",
                      f"{fn} ({tag}): length {len(out)} vs {len(imap)}; differing {bad[:3]} at {inp}")


def work_split(prog, m, ode, comp_name):
    """missing_values of the remainder model, generated with backend=jax."""
    from .. import pipeline
    comp = ode.get_component(comp_name)
    sub = comp.to_ode()
    rest = ode - comp
    mv = sub.missing_variables
    def gen():
        return pipeline.gen_py(rest, backend="jax", missing_values=mv)
    code = checks.generate(prog, "jax|missing_values|get_code", gen)
    if code is None:
        return prog.result()
    from ..views import PyView
    try:
        view = PyView(code, "jax")
    except Exception as e:
        prog.fact("jax|parse", False, "SyntaxError", str(e))
        return prog.result()
    checks.check_length(prog, view, "missing_values", len(mv), "one entry per requested missing value")
    checks.check_missing_values(prog, view, m, mv, rest_missing=rest.missing_variables)
    prog.nontrivial = True
    return prog.result()


def bounds(tier):
    return {"programs": "110 of the C01 universe + 2 corpus + 2 split sub-models" if tier == "quick" else "whole C01 universe + corpus + split",
            "inputs": "all reals in the per-slot domain"}
