"""C20 - symbolic right-hand side and Jacobian matrices are those of the model."""
from __future__ import annotations

import signal

from .. import families, checks, pipeline, refsem, sympy2smt
from ..core import Prog, witness_tasks, text_id
from ..pysym import Unsupported
from ..refsem import Evaluator, RefError

PROP = "C20"
LEVEL = "translation_validation"
RULE = ("dependency chains of depth 1..25 (plain and diamond), DAG, COND, FUNC and corpus programs; the sympy entries of the real "
        "states_matrix / rhs_matrix / jacobi_matrix are walked into terms; rhs[i] is proved equal to the fully expanded reference "
        "derivative and J[i][j] to the derivative from the independent differentiator (through all intermediates) for all real "
        "inputs; state order compared with the emitted state_index; non-trivial = at least one intermediate is expanded")
FUNCTIONS = ["gotranx.sympytools.states_matrix", "rhs_matrix", "jacobi_matrix", "ODE.sorted_states"]
ASSUME = ["the Jacobian reference comes from vt/refsem.diff with expand=True; programs outside its function set (floor/Mod of a state) are skipped as inconclusive",
          "numeric replay evaluates the sympy entry with sympy.N at the witness"]
TASK_LIMIT = 300

EXTRA = [
    "parameters(a=0.5, b=2.0)\nstates(x=1.0, y=2.0)\nu = a*x*y\nv = u*u + exp(-x)\ndx_dt = -v + sin(y)\ndy_dt = u/(1 + x*x) - b*y\n",
    "parameters(a=0.5)\nstates(x=1.0, y=2.0)\nu = Conditional(Gt(x, 0), x*x, -x)\ndx_dt = -u*y\ndy_dt = u - a*y*y*y\n",
    "parameters(a=0.5, b=2.0)\nstates(x=1.0, y=2.0, z=3.0)\np = x + y\nq = p*z\nr = q + p\ndx_dt = r*a\ndy_dt = q - r\ndz_dt = log(1 + x*x) - sqrt(1 + y*y) + b*p\n",
    "parameters(k=2.0)\nstates(x=1.0, y=0.5)\ndx_dt = x**3 - k*x*y\ndy_dt = abs(x) - y**2\n",
    # intermediates that are literally zero / one (switched-off currents), used directly and through other intermediates
    "parameters(k=2.0)\nstates(m=1.0, v=0.5)\ni_stim = 0\ni_off = 0.0\ni_tot = i_stim + k*v\nunit = 1\ndm_dt = -k*m + i_stim*unit\ndv_dt = -i_tot + i_off*m\n",
    # a state (and its derivative) declared identically in two components
    ('states("A", x=1.0, m=0.5)\nstates("B", m=0.5, z=2.0)\nparameters("A", k=2.0)\nexpressions("A")\ndm_dt = -k*m\ndx_dt = -x + m\n'
     'expressions("B")\ndm_dt = -k*m\ndz_dt = m*x - z\n'),
    # an intermediate that reads a state derivative
    "parameters(c=2.0)\nstates(x=1.0, y=0.5)\ndx_dt = -x*y\nj = dx_dt*c\ndy_dt = j - y\n",
]


def tasks(tier, seed):
    P = []
    depths = [1, 2, 5, 10, 19, 20, 21, 25] if tier == "quick" else list(range(1, 26))
    for d in depths:
        for dia in (False, True):
            if dia and d > (10 if tier == "quick" else 14):
                continue  # diamond chains grow like Fibonacci numbers when expanded
            t = families.chain_model(d, diamond=dia)
            P.append({"family": "CHAIN", "id": text_id(t), "text": t, "meta": {"depth": d, "diamond": dia}})
    for t in EXTRA:
        P.append({"family": "JAC", "id": text_id(t), "text": t, "meta": {}})
    shared = ("parameters(k=0.5)\nstates(" + ", ".join(f"g{i}={0.1 * (i + 1)}" for i in range(7)) + ", v=-1.0)\n"
              "vs = v*k + 1\nu = vs*vs\ne = exp(-u)\nsig = 1/(1 + e)\n" + "".join(f"dg{i}_dt = (sig - g{i})*{i + 1}\n" for i in range(7)) + "dv_dt = -v + g0*g3\n")
    P.append({"family": "JAC", "id": text_id(shared), "text": shared, "meta": {}})
    from . import c12
    P += [{"family": "JAC", "id": text_id(t), "text": t, "meta": {}} for t in c12.UNUSED]
    tie = "parameters(a=0.7, b=0.8, c3=3.0)\nstates(v=-1.0, w=1.0, s=0.5)\ntau_w = 1/(b*c3)\ndv_dt = c3*(v - v*v*v/3 + w)\ndw_dt = -(v - a + b*w)/c3\nds_dt = -s + v\n"
    P.append({"family": "JAC", "id": text_id(tie), "text": tie, "meta": {}})
    dg = families.dag_family(3, 2)
    P += families.select(dg, 20 if tier == "quick" else 400, seed)
    P += families.pack(families.select(families.cond_family(), 16 if tier == "quick" else None, seed), "COND", per=2)
    P += families.pack(families.select(families.func_family(), 24 if tier == "quick" else None, seed), "FUNC", per=3)
    P += families.layout_family()
    P += families.corpus(["lorentz.ode", "fitzhughnagumo.ode"] if tier == "quick" else ["lorentz.ode", "fitzhughnagumo.ode", "beeler_reuter_1977.ode"])
    from .. import gen
    P += gen.programs(tier, seed, 60, 600, "std")
    return [dict(p, opts={}) for p in P] + witness_tasks(PROP)


def work(task):
    prog = Prog(PROP, task, timeout_ms=15000)
    m, ode = checks.load_all(prog, task["text"])
    if ode is None:
        return prog.result()
    from gotranx import sympytools

    try:
        S = sympytools.states_matrix(ode)
        R = sympytools.rhs_matrix(ode)
    except Exception as e:
        prog.fact("rhs_matrix", False, "MatrixRaised", f"rhs_matrix raised {type(e).__name__}: {e} (acyclic model, "
                  f"{len(m.intermediates)} intermediates)"[:300])
        return prog.result()
    prog.fact("rhs_matrix", True, "", "")
    names = [str(s) for s in S]
    prog.fact("shape", tuple(R.shape) == (len(m.states), 1) and len(names) == len(m.states), "MatrixShape",
              f"rhs_matrix has shape {tuple(R.shape)}, states_matrix {tuple(S.shape)}, the model has {len(m.states)} states")
    code = checks.generate(prog, "numpy|get_code", pipeline.gen_py, ode)
    if code is not None:
        from ..views import PyView
        v = PyView(code, "numpy")
        order = sorted(v.index_map("state"), key=lambda k: v.index_map("state")[k])
        prog.fact("state-order", names == order, "StateOrder", f"states_matrix order {names} vs generated state_index order {order}")
    c = prog.ctx

    def sym(name):
        if name in m.states:
            return c.inp(f"s_{name}")
        if name in m.params:
            return c.inp(f"p_{name}")
        if name in ("t", "time"):
            return c.inp("t")
        raise Unsupported(f"symbol {name} left in the matrix (unexpanded intermediate?)")

    def sp_eval(entry):
        def f(inputs):
            import sympy as sp
            subs = {}
            for s in entry.free_symbols:
                n = s.name
                key = f"s_{n}" if n in m.states else (f"p_{n}" if n in m.params else "t")
                subs[s] = inputs.get(key, 0.0)
            try:
                return sympy2smt.numeric(entry, subs)
            except ValueError as e:
                if "numeric: sympy node" not in str(e):
                    raise
                return float(sp.N(entry.subs({k: sp.Float(v, 30) for k, v in subs.items()}), 30))
        return f

    for i, s in enumerate(names):
        label = f"rhs|{s}"
        try:
            gen = sympy2smt.to_term(c, R[i], sym)
        except Unsupported as e:
            if "left in the matrix" in str(e):
                prog.fact(label, False, "UnexpandedIntermediate", str(e))
            else:
                prog.skip(label, str(e))
            continue
        ev = Evaluator(c, m)
        fa = m.rate(s)
        ref = ev.ev(fa)
        prog.eq(label, ev.dom, gen, ref, gen_eval=sp_eval(R[i]), ref_eval=checks.ref_eval_factory(m, fa),
                what=f"rhs_matrix[{s}] vs expanded d{s}_dt")
    try:
        signal.alarm(240)
        J = sympytools.jacobi_matrix(ode)
    except Exception as e:
        prog.fact("jacobi_matrix", False, "MatrixRaised", f"jacobi_matrix raised {type(e).__name__}: {e}"[:300])
        return prog.result()
    for i, si in enumerate(names):
        for j, sj in enumerate(names):
            label = f"jac|{si}|{sj}"
            try:
                da = refsem.diff(m.rate(si), sj, m, expand=True)
            except refsem.NotDifferentiable as e:
                prog.skip(label, f"reference differentiator: {e}")
                continue
            try:
                gen = sympy2smt.to_term(c, J[i, j], sym)
            except Unsupported as e:
                prog.skip(label, str(e))
                continue
            ev = Evaluator(c, m)
            try:
                ev.ev(m.rate(si))   # domain of f itself
                ref = ev.ev(da)
            except RefError as e:
                prog.skip(label, str(e))
                continue
            prog.eq(label, ev.dom, gen, ref, gen_eval=sp_eval(J[i, j]), ref_eval=checks.ref_eval_factory(m, da),
                    what=f"jacobi_matrix[{si}][{sj}] vs d(d{si}_dt)/d{sj}")
    prog.nontrivial = bool(m.intermediates)
    return prog.result()


def bounds(tier):
    return {"chain_depths": "1,2,5,10,19,20,21,25" if tier == "quick" else "1..25", "inputs": "all reals in the domain of f and its derivative"}
