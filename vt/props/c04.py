"""C04 - names and array slots agree across every generated function."""
from __future__ import annotations

import itertools
import re

import z3

from .. import families, checks, pipeline, pysym, smt
from ..core import Prog, witness_tasks, text_id
from ..pysym import ArtefactError, Unsupported
from ..views import PyView, CView

PROP = "C04"
TASK_LIMIT = 600
LEVEL = "translation_validation"
RULE = ("DAG and LAYOUT programs x backends {numpy, jax, c} x all 6 rhs argument orders x all 24 scheme argument orders; "
        "index functions are decided over a symbolic z3 String, init_* with k<=2 symbolic (String key, Real value) overrides; "
        "non-trivial = the emitted state order differs from alphabetical order")
FUNCTIONS = ["CodeGenerator.state_index/parameter_index/monitor_index", "initial_state_values/initial_parameter_values",
             "CodeGenerator.rhs(order=...)", "CodeGenerator.scheme(order=...)", "RHSArgument/SchemeArgument",
             "templates python/jax/c index + init templates", "gotran2c.get_code NUM_* constants"]
ASSUME = ["index functions: obligations over ALL strings (z3 string theory): known names map injectively onto 0..n-1, every other string is refused (KeyError / -1)",
          "init overrides: k<=2 symbolic keyword pairs, later keyword wins; C init functions take no overrides",
          "argument orders: formal parameter list equals the permutation named by the order string and every output slot term is identical to the default order's term"]

EXTRA = [
    "parameters(lambda=0.5, long=2.0, int=1.5)\nstates(def=1.0, short=2.0)\nclass = lambda*def + long\nddef_dt = -class + int\ndshort_dt = def - short\n",
    "parameters(zeta=1.0, alpha=2.0, mid=3.0)\nstates(zz=1.0, aa=2.0, mm=3.0)\nu = aa*alpha\ndzz_dt = -zz\ndmm_dt = u - mm\ndaa_dt = mm*zeta - aa*mid\n",
    "parameters(b=2.0, a=1.0)\nstates(y=2.0, x=1.0)\ndx_dt = -y*a\ndy_dt = x*b\n",
    "parameters(p=0.5)\nstates(c=3.0, b=2.0, a=1.0)\ni2 = a + b\ni1 = i2*c\ndc_dt = -i1\ndb_dt = i2 - b*p\nda_dt = -a\n",
]


def tasks(tier, seed):
    from . import c12
    P = [{"family": "IDX", "id": text_id(t), "text": t, "meta": {}} for t in EXTRA + c12.UNUSED[:4]]
    P += families.layout_family()
    P.append(families.wide_program(12))   # two-digit slot numbers in every backend
    dg = families.dag_family(2 if tier == "quick" else 3, 2)
    P += families.select(dg, 12 if tier == "quick" else 200, seed)
    if tier != "quick":
        P += families.corpus(["lorentz.ode", "fitzhughnagumo.ode", "beeler_reuter_1977.ode"])
    from .. import gen
    P += gen.programs(tier, seed, 12, 150, "std")
    return [dict(p, opts={}) for p in P] + witness_tasks(PROP)


def expected_sets(m):
    return {"state": list(m.states), "parameter": list(m.params), "monitor": list(m.assigns)}


def check_index_py(prog: Prog, view: PyView, kind, names):
    c = prog.ctx
    label = f"{view.backend}|{kind}_index"
    fn = f"{kind}_index"
    if not view.has(fn):
        prog.fact(label + "|exists", False, "MissingFunction", f"{fn} not emitted")
        return
    K = z3.String(f"K_{kind}")
    K2 = z3.String(f"K2_{kind}")
    px = pysym.PyExec(c, view.mod)
    px.env = {}
    px.fname = fn
    try:
        r1 = px.call_module_func(fn, [pysym.SymStr(K)])
        r2 = px.call_module_func(fn, [pysym.SymStr(K2)])
    except (ArtefactError, Unsupported) as e:
        prog.skip(label, f"index function not encodable: {e}")
        return
    n = len(names)
    known = z3.Or(*[K == z3.StringVal(x) for x in names]) if names else z3.BoolVal(False)
    known2 = z3.Or(*[K2 == z3.StringVal(x) for x in names]) if names else z3.BoolVal(False)
    ns = view.namespace() if view.backend == "numpy" else None

    def confirm_known(inputs, model):
        strs = (model or {}).get("__strings__", {})
        if ns is None:
            return True, f"index function accepts/refuses a wrong set of names (solver witness {strs})"
        out = {}
        for k, v in strs.items():
            try:
                out[k] = ns[fn](v)
            except KeyError:
                out[k] = "KeyError"
        k1, k2 = strs.get(f"K_{kind}"), strs.get(f"K2_{kind}")
        bad = False
        if k1 is not None:
            r = out[f"K_{kind}"]
            bad = (k1 in names and not (isinstance(r, int) and 0 <= r < n)) or (k1 not in names and r != "KeyError")
            if k2 is not None and k1 in names and k2 in names and k1 != k2 and r == out[f"K2_{kind}"]:
                bad = True
        return bad, f"real {fn}: " + ", ".join(f"{fn}({v!r}) -> {out[k]}" for k, v in strs.items())

    prog.holds(label + "|known->in-range", [known], z3.And(z3.Not(r1.err), r1.term >= 0, r1.term < n),
               confirm=confirm_known, what=f"{fn}: every declared name maps into 0..{n-1}")
    prog.holds(label + "|unknown->refused", [z3.Not(known)], r1.err, confirm=confirm_known,
               what=f"{fn}: every other string raises KeyError")
    prog.holds(label + "|injective", [known, known2, K != K2], r1.term != r2.term, confirm=confirm_known,
               what=f"{fn}: injective")


def check_index_c(prog: Prog, view: CView, kind, names):
    label = f"c|{kind}_index"
    fn = f"{kind}_index"
    if not view.has(fn):
        prog.fact(label + "|exists", False, "MissingFunction", f"{fn} not emitted")
        return
    K = z3.String(f"K_{kind}")
    K2 = z3.String(f"K2_{kind}")
    try:
        r1 = view.cm.index_term(fn, prog.ctx, K)
        r2 = view.cm.index_term(fn, prog.ctx, K2)
    except (ArtefactError, Unsupported) as e:
        prog.skip(label, f"index function not encodable: {e}")
        return
    n = len(names)
    known = z3.Or(*[K == z3.StringVal(x) for x in names]) if names else z3.BoolVal(False)
    known2 = z3.Or(*[K2 == z3.StringVal(x) for x in names]) if names else z3.BoolVal(False)
    def cf(inputs, model):
        import ctypes
        strs = (model or {}).get("__strings__", {})
        lib = view.lib()
        f = getattr(lib, fn)
        f.restype = ctypes.c_int
        vals = {k: f(v.encode("latin-1", "replace")) for k, v in strs.items()}
        k1, k2 = strs.get(f"K_{kind}"), strs.get(f"K2_{kind}")
        bad = False
        if k1 is not None:
            r = vals[f"K_{kind}"]
            bad = (k1 in names and not (0 <= r < n)) or (k1 not in names and r != -1)
            if k2 is not None and k1 in names and k2 in names and k1 != k2 and r == vals[f"K2_{kind}"]:
                bad = True
        return bad, f"real compiled {fn}: " + ", ".join(f"{fn}({v!r}) = {vals[k]}" for k, v in strs.items())

    prog.holds(label + "|known->in-range", [known], z3.And(r1 >= 0, r1 < n), confirm=cf, what=f"{fn}: declared names map into 0..{n-1}")
    prog.holds(label + "|unknown->refused", [z3.Not(known)], r1 == -1, confirm=cf, what=f"{fn}: other strings give -1")
    prog.holds(label + "|injective", [known, known2, K != K2], r1 != r2, confirm=cf, what=f"{fn}: injective")


def check_init_overrides(prog: Prog, view: PyView, m):
    c = prog.ctx
    for fn, kind, decl in (("init_state_values", "state", m.states), ("init_parameter_values", "parameter", m.params)):
        if not decl or not view.has(fn):
            continue
        imap = view.index_map(kind)
        for k in (1, 2):
            label = f"{view.backend}|{fn}|overrides{k}"
            try:
                px = pysym.PyExec(c, view.mod, jax_traced=False)
                res = px.run(fn, kwargs_symbolic=k)
            except ArtefactError as e:
                prog.structural(label, e)
                continue
            except Unsupported as e:
                prog.skip(label, str(e))
                continue
            keys = [z3.String(f"key{i}") for i in range(k)]
            vals = [c.inp(f"val{i}") for i in range(k)]
            known = [z3.Or(*[K == z3.StringVal(x) for x in decl]) for K in keys]
            raised = z3.Or(*px.raises) if px.raises else z3.BoolVal(False)
            cf = lambda inputs, model: (True, "init_* override lands in the wrong slot (solver witness)")
            prog.holds(label + "|raises-iff-unknown", [], raised == z3.Not(z3.And(*known)), confirm=cf,
                       what=f"{fn}: KeyError exactly for undeclared keywords")
            for name, val_ast in decl.items():
                if name not in imap:
                    continue
                j = imap[name]
                slot = res.get(j)
                if slot is None:
                    prog.fact(label + f"|{name}", False, "UnsetRead", f"{fn} slot {j} unset")
                    continue
                from ..refsem import Evaluator
                want = c.real(Evaluator(c, None).ev(val_ast))
                for K, V in zip(keys, vals):
                    want = z3.If(K == z3.StringVal(name), V, want)

                def confirm(inputs, model, name=name, j=j, fn=fn):
                    if view.backend != "numpy":
                        return True, "jax init override mismatch"
                    ns = view.namespace()
                    r = ns[fn](**{name: 123.5})
                    others = [i for i in range(len(r)) if i != j and r[i] == 123.5]
                    return (r[j] != 123.5 or bool(others)), f"{fn}({name}=123.5) -> {list(r)}"

                prog.holds(label + f"|{name}", known, c.real(slot.cols[0]) == want, confirm=confirm,
                           what=f"{fn}: slot {kind}_index({name})={j} holds override else default")


RHS_ORDERS = ["".join(p) for p in itertools.permutations("stp")]
SCHEME_ORDERS = ["".join(p) for p in itertools.permutations("stpd")]
ARGNAME = {"s": "states", "t": "t", "p": "parameters", "d": "dt"}


def check_orders(prog: Prog, ode, m, backend, tier):
    """All argument orders through the real CodeGenerator.rhs / scheme."""
    from gotranx.codegen.python import PythonCodeGenerator, Format
    from gotranx.codegen.jax import JaxCodeGenerator
    from gotranx.codegen.c import CCodeGenerator, Format as CFormat
    from gotranx.schemes import get_scheme

    pieces = {}
    try:
        if backend == "c":
            cg = CCodeGenerator(ode, format=CFormat.none)
        elif backend == "jax":
            cg = JaxCodeGenerator(ode, format=Format.none)
        else:
            cg = PythonCodeGenerator(ode, format=Format.none)
        head = [cg.imports(), cg.parameter_index(), cg.state_index(), cg.monitor_index()]
        body = []
        for o in RHS_ORDERS:
            code = cg.rhs(order=o)
            body.append(re.sub(r"\brhs\(", f"rhs_{o}(", code, count=1))
            pieces[f"rhs_{o}"] = o
        for o in SCHEME_ORDERS:
            code = cg.scheme(get_scheme("explicit_euler"), order=o)
            body.append(re.sub(r"\bexplicit_euler\(", f"euler_{o}(", code, count=1))
            pieces[f"euler_{o}"] = o
        # enum-typed orders as well
        from gotranx.codegen.base import RHSArgument, SchemeArgument
        for en in RHSArgument:
            if cg.rhs(order=en) != cg.rhs(order=en.value):
                prog.fact(f"{backend}|order-enum|{en.value}", False, "OrderEnum", "enum and string order differ")
        code_all = "\n".join(head + body)
    except Exception as e:
        prog.fact(f"{backend}|orders|generate", False, "GenerationError", f"{type(e).__name__}: {e}"[:300])
        return
    try:
        view = CView(code_all) if backend == "c" else PyView(code_all, backend)
    except Exception as e:
        prog.fact(f"{backend}|orders|parse", False, "SyntaxError", f"{type(e).__name__}: {e}"[:300])
        return
    base = {}
    for fn, o in pieces.items():
        want = [ARGNAME[ch] for ch in o]
        got = view.arg_names(fn)
        if backend == "c":
            want = want + ["values"]
        prog.fact(f"{backend}|{fn}|formals", got == want, "ArgumentOrder",
                  f"order {o!r}: formal parameters {got}, expected {want}")
        r = checks.sym_function(prog, view, fn)
        if r is None:
            continue
        slots = r[0]
        kind = "rhs" if fn.startswith("rhs") else "euler"
        if kind not in base:
            base[kind] = (fn, slots)
            continue
        bfn, bslots = base[kind]
        for idx in sorted(set(slots) | set(bslots)):
            label = f"{backend}|{fn}|slot{idx}|same-as-{bfn}"
            if idx not in slots or idx not in bslots:
                prog.fact(label, False, "SlotNotWritten", f"slot {idx} written by only one of {fn}, {bfn}")
                continue
            ge = (lambda inputs, idx=idx, fn=fn: view.concrete(fn, inputs)[idx])
            re_ = (lambda inputs, idx=idx, bfn=bfn: view.concrete(bfn, inputs)[idx])
            prog.eq(label, [], slots[idx], bslots[idx], gen_eval=ge, ref_eval=re_, what=f"{fn} slot {idx} vs {bfn}")
    if backend == "c":
        view.close()


def work(task):
    prog = Prog(PROP, task, timeout_ms=10000)
    m, ode = checks.load_all(prog, task["text"])
    if ode is None:
        return prog.result()
    exp = expected_sets(m)
    for backend in ("numpy", "jax", "c"):
        view = checks.make_view(prog, ode, backend, schemes=["explicit_euler"])
        if view is None:
            continue
        for kind, names in exp.items():
            if backend == "c":
                check_index_c(prog, view, kind, names)
            else:
                check_index_py(prog, view, kind, names)
        checks.check_init_defaults(prog, view, m)
        if backend != "c":
            check_init_overrides(prog, view, m)
        else:
            g = view.cm.ir.globals_int
            for cname, n in (("NUM_STATES", len(m.states)), ("NUM_PARAMS", len(m.params)), ("NUM_MONITORED", len(m.assigns))):
                prog.fact(f"c|{cname}", g.get(cname) == n, "WrongCount", f"{cname} = {g.get(cname)}, index domain has {n}")
        # slot agreement by name: rhs/scheme/monitor
        checks.check_rhs_monitor(prog, view, m)
        checks.check_euler(prog, view, m)
        # slots must agree by name under the remove-unused configuration as well
        vr = checks.make_view(prog, ode, backend, label=f"{backend}|get_code|remove_unused", schemes=["explicit_euler"], remove_unused=True)
        if vr is not None:
            for kind in ("state", "parameter", "monitor"):
                prog.fact(f"{backend}|{kind}_index|remove_unused", vr.index_map(kind) == view.index_map(kind), "LayoutChanged",
                          f"{kind} index map changes with remove_unused")
            checks.check_rhs_monitor(prog, vr, m, tag="|ru")
            checks.check_euler(prog, vr, m, tag="|ru")
            if backend == "c":
                vr.close()
        order = sorted(view.index_map("state"), key=lambda k: view.index_map("state")[k])
        if order != sorted(order):
            prog.nontrivial = True
        if backend == "c":
            view.close()
        check_orders(prog, ode, m, backend, "quick")
    return prog.result()


def bounds(tier):
    return {"rhs_orders": 6, "scheme_orders": 24, "override_pairs": "k <= 2", "strings": "all (z3 string theory)",
            "programs": "3 IDX + LAYOUT + %s DAG" % ("12" if tier == "quick" else "200 (+3 corpus)")}
