"""C17 - comments, layout and annotations are inert."""
from __future__ import annotations

import multiprocessing as mp
import os
import signal
import subprocess
import sys
import json

from .. import checks, pipeline, refsem
from ..core import Prog, witness_tasks, text_id

PROP = "C17"
LEVEL = "translation_validation"
RULE = ("base models x placements {header, between blocks, inside an expression block, trailing an assignment} x a fixed corpus of "
        "comment strings, and layout / annotation edits (blank and whitespace-only lines, indentation, tabs, CRLF, trailing blanks, "
        "continuation after an operator, spacing around '=', unit / description changes); each edited text is loaded by the real loader "
        "in a subprocess under a wall limit, and the emitted NumPy module is compared with the base model's: bytes, slot layout, "
        "component membership and solver-decided equality of every slot; non-trivial = the edited text differs from the base text")
FUNCTIONS = ["ode.lark comment / assignment rules", "transformer.get_unit_and_comment_from_assignment (units.ureg)", "atoms.unit_from_string",
             "TreeToODE.comment / expressions / ode", "gotran2py.get_code of both models"]
ASSUME = ["the comment-string axis is a corpus, not solver-quantified: the text goes through pint's tokenizer / evaluator which no installed engine executes symbolically",
          "'never hangs' is a per-case wall limit (20 s) in a subprocess", "functional equality of the two emitted modules is decided by z3 for all real inputs"]
TASK_LIMIT = 200
LOAD_LIMIT = 20

COMMENTS = ["a plain comment", "mV", "ms**-1", "pA*pF**-1", "1/ms", "42", "3.5", "2*3", "1/0", "9**9**9", "x", "dt", "sigma", "dx_dt = 5",
            "lambda", "def f():", "import os", "(", ")", "[mV", "{", "unbalanced ) paren", "'quoted'", '"double"', "# nested # hashes",
            "", " ", "mV # and more", "not a unit at all, really", "µA", "e", "E", "pi", "1e400", "-", "**", "a + b", "states(q=1)",
            "expressions(\"Z\")", "% percent", "mV/ms;", "\\backslash", "tab\tinside", "very " * 30 + "long",
            "data from C:\\models\\hh\\", "continued on the next line \\", "10 mV", "0.001*mM", "1e3", "mV)", "ms # s",
            "\\xi(t) noise term", 'triple """ quote', "\\Upsilon and \\N{nothing}", "C:\\Users\\anna\\fits",
            "opening rate of the activation gate from the squid axon model, rescaled to 37 C",
            "see Hodgkin_Huxley_1952_squid_axon_model_parameters_table_3: value", "aaaaaaaaaaaaaaaaaaaaaaaaaaaaaaaaaaaa!"]
# characters that str.splitlines() treats as line boundaries but the grammar does not: the rest of the comment must stay comment
SEPARATORS = ["legacy alias:\x0ca_old = 3.0", "vertical\x0btab zz = 1", "file\x1csep", "group\x1dsep q = 2", "record\x1esep",
              "next\x85line a_new = 4.0", "line\u2028separator dx_dt = 0", "paragraph\u2029separator", "unit\x1fsep"]
COMMENTS += SEPARATORS

BASES = [
    ("parameters(sigma=12.0, rho=21.0, beta=2.4)\nstates(x=1.0, y=2.0, z=3.05)\n"
     "dx_dt = sigma*(y - x)\na = rho - z\ndy_dt = x*a - y\ndz_dt = x*y - beta*z\n"),
    ('states("A", x=ScalarParam(1.0, unit="mV", description="volt"))\nstates("B", y=2.0)\n'
     'parameters("A", a=0.5)\nparameters("B", b=ScalarParam(2.0, unit="ms"))\n'
     'expressions("A")\nia = a*x + y\ndx_dt = -ia\n'
     'expressions("B")\nib = b*y - ia\ndy_dt = ib/b\n'),
    # declarations shared by two components (accepted: identical definitions), each carrying a unit annotation
    ('parameters("M", Cm=ScalarParam(1.0, unit="uF"), g=0.3)\nparameters("S", Cm=ScalarParam(1.0, unit="uF"), amp=2.0)\n'
     'states("M", V=-80.0)\nstates("S", w=0.0)\n'
     'expressions("M")\nvshift = V + 40 # mV\ndV_dt = -g*vshift/Cm + w\n'
     'expressions("S")\nvshift = V + 40 # mV\ndw_dt = amp*vshift/Cm - w\n'),
]


def place(base: str, where: str, c: str):
    lines = base.splitlines()
    cm = "#" + ((" " + c) if c != "" else "")
    # index of first assignment line and of the last line of the first expressions block
    ai = [i for i, l in enumerate(lines) if "=" in l and not l.startswith(("parameters", "states", "expressions"))]
    if where == "header":
        return "\n".join([cm] + lines) + "\n"
    if where == "between-blocks":
        return "\n".join(lines[:1] + [cm] + lines[1:]) + "\n"
    if where == "before-expressions":
        return "\n".join(lines[:ai[0]] + [cm] + lines[ai[0]:]) + "\n"
    if where == "inside-expressions":
        return "\n".join(lines[:ai[0] + 1] + [cm] + lines[ai[0] + 1:]) + "\n"
    if where == "trailing":
        k = ai[1]
        return "\n".join(lines[:k] + [lines[k] + " " + cm] + lines[k + 1:]) + "\n"
    if where == "trailing-last":
        return "\n".join(lines[:-1] + [lines[-1] + " " + cm]) + "\n"
    if where == "footer":
        return "\n".join(lines + [cm]) + "\n"
    raise ValueError(where)


PLACES = ["header", "between-blocks", "before-expressions", "inside-expressions", "trailing", "trailing-last", "footer"]


def layout_edits(base: str):
    lines = base.splitlines()
    ai = [i for i, l in enumerate(lines) if "=" in l and not l.startswith(("parameters", "states", "expressions"))]
    out = {}
    out["blank-lines-everywhere"] = "\n\n".join(lines) + "\n\n"
    out["blank-line-inside-expressions"] = "\n".join(lines[:ai[0] + 1] + [""] + lines[ai[0] + 1:]) + "\n"
    out["spaces-only-line-inside-expressions"] = "\n".join(lines[:ai[0] + 1] + ["   "] + lines[ai[0] + 1:]) + "\n"
    out["tab-only-line-inside-expressions"] = "\n".join(lines[:ai[0] + 1] + ["\t"] + lines[ai[0] + 1:]) + "\n"
    out["indent-assignments"] = "\n".join(("    " + l if i in ai else l) for i, l in enumerate(lines)) + "\n"
    out["tab-indent-assignments"] = "\n".join(("\t" + l if i in ai else l) for i, l in enumerate(lines)) + "\n"
    out["crlf"] = "\r\n".join(lines) + "\r\n"
    out["trailing-blanks"] = "\n".join(l + "   " for l in lines) + "\n"
    out["no-final-newline"] = "\n".join(lines)
    out["leading-blank-lines"] = "\n\n\n" + base
    out["spaces-around-equals"] = "\n".join((l.replace(" = ", "   =   ") if i in ai else l) for i, l in enumerate(lines)) + "\n"
    out["no-spaces-around-equals"] = "\n".join((l.replace(" = ", "=") if i in ai else l) for i, l in enumerate(lines)) + "\n"
    import re as _re
    # after a single `*` (never inside the power operator `**`)
    out["continuation-after-operator"] = "\n".join((_re.sub(r"(?<!\*)\*(?!\*)", "*\n      ", l, count=1) if i == ai[0] else l) for i, l in enumerate(lines)) + "\n"
    out["continuation-inside-parens"] = "\n".join((l.replace("(", "(\n   ", 1) if i == ai[0] else l) for i, l in enumerate(lines)) + "\n"
    out["declaration-one-per-line"] = base.replace(", ", ",\n    ")
    out["unit-changed"] = base.replace('unit="mV"', 'unit="uV"').replace('unit="ms"', 'unit="s"')
    out["unit-removed"] = base.replace(', unit="mV"', "").replace('ScalarParam(2.0, unit="ms")', "2.0")
    out["description-changed"] = base.replace('description="volt"', 'description="something = else, with (parens) # and hash"')
    out["unit-invalid"] = base.replace('unit="mV"', 'unit="not_a_unit"')
    out["unit-scaled"] = base.replace('unit="mV"', 'unit="10 mV"').replace('unit="ms"', 'unit="0.001*s"')
    out["unit-number"] = base.replace('unit="mV"', 'unit="2"')
    out["unit-broken"] = base.replace('unit="mV"', 'unit="mV)"')
    out["cr-only"] = "\r".join(lines) + "\r"
    # one of two identical declarations gets another (valid) unit / loses its unit
    out["unit-one-of-two-changed"] = base.replace('unit="uF"', 'unit="pF"', 1)
    out["unit-second-of-two-changed"] = base[::-1].replace('unit="uF"'[::-1], 'unit="F"'[::-1], 1)[::-1]
    out["unit-one-of-two-removed"] = base.replace('Cm=ScalarParam(1.0, unit="uF")', "Cm=1.0", 1)
    out["unit-one-of-two-dimensionless"] = base.replace('unit="uF"', 'unit="1"', 1)
    out["trailing-unit-one-of-two-changed"] = base.replace("# mV", "# V", 1)
    out["trailing-unit-one-of-two-removed"] = base.replace(" # mV", "", 1)
    return {k: v for k, v in out.items() if v != base}


def tasks(tier, seed):
    out = []
    import random
    rnd = random.Random(seed)
    from .. import gen
    G = [p["text"] for p in gen.programs(tier, seed, 12, 90, "std", components=False, comments=False)
         if len(p["meta"]["states"]) + len(p["meta"]["inters"]) >= 2
         and not any(ln[:1] in " \t" for ln in p["text"].splitlines())][:4 if tier == "quick" else 30]   # one-line declarations only
    for bi, base in enumerate(BASES + G):
        combos = [(p, c) for p in PLACES for c in COMMENTS]
        if bi >= len(BASES):
            combos = rnd.sample(combos, 20 if tier == "quick" else 40)
        elif tier == "quick":
            keep = [(p, c) for p, c in combos if p in ("inside-expressions", "trailing") and c in ("a plain comment", "mV", "(", "1/0", "", "x")]
            keep += [(p, c) for k, c in enumerate(SEPARATORS) for p in (PLACES[k % len(PLACES)], "trailing")]
            keep = list(dict.fromkeys(keep))
            rest = [x for x in combos if x not in keep]
            combos = keep + rnd.sample(rest, 60)
        headed = 'expressions("' in base
        for p, c in combos:
            t = place(base, p, c)
            # structural classes of the known grammar-level findings (DESIGN section 8)
            kc = None
            if c.strip() == "":
                kc = "empty comment ('#' with nothing after it)"
            elif headed and p in ("inside-expressions", "before-expressions"):
                kc = "comment line inside / directly after the header of an expressions(\"C\") block"
            elif c == "9**9**9" and p in ("trailing", "trailing-last"):
                kc = "trailing comment '9**9**9' (pint evaluates it: hang)"
            out.append({"family": "COMMENT", "id": text_id(t), "text": t, "opts": {"base": base, "edit": f"{p}|{c[:40]}", "known_class": kc}})
        for k, t in layout_edits(base).items():
            kc = None
            if headed and k in ("spaces-only-line-inside-expressions", "tab-only-line-inside-expressions"):
                kc = "whitespace-only line inside an expressions(\"C\") block"
            out.append({"family": "LAYOUT", "id": text_id(t), "text": t, "opts": {"base": base, "edit": k, "known_class": kc}})
    return out + witness_tasks(PROP)


LOAD_SCRIPT = r'''
import sys, json
sys.path.insert(0, "/verif")
from vt import pipeline
text = sys.stdin.read()
try:
    ode = pipeline.load(text)
    code = pipeline.gen_py(ode, schemes=["explicit_euler"])
    memb = {}
    for comp in ode.components:      # a name declared identically in two components belongs to both
        for a in tuple(comp.states) + tuple(comp.parameters) + tuple(comp.intermediates) + tuple(comp.state_derivatives):
            memb.setdefault(a.name, set()).update(a.components)
    memb = {k: sorted(v) for k, v in memb.items()}
    print("RESULT" + json.dumps({"ok": True, "code": code, "membership": memb}))
except BaseException as e:
    print("RESULT" + json.dumps({"ok": False, "error": f"{type(e).__name__}: {str(e)[:200]}"}))
'''


def load_in_subprocess(text):
    env = dict(os.environ, PYTHONPATH="/verif")
    try:
        p = subprocess.run([sys.executable, "-c", LOAD_SCRIPT], input=text, capture_output=True, text=True, env=env,
                           timeout=LOAD_LIMIT)
    except subprocess.TimeoutExpired:
        return {"ok": False, "error": f"HANG: no result within {LOAD_LIMIT} s", "hang": True}
    for line in p.stdout.splitlines():
        if line.startswith("RESULT"):
            return json.loads(line[6:])
    return {"ok": False, "error": "no result: " + p.stderr[-200:]}


class ClassKeyProg(Prog):
    def key(self, label):
        kc = self.task["opts"].get("known_class")
        if kc:
            return f"{self.prop}|CLASS|{kc}"
        return super().key(label)


def work(task):
    prog = ClassKeyProg(PROP, task, timeout_ms=10000)
    o = task["opts"]
    base = o["base"]
    edit = o["edit"]
    m0, ode0 = checks.load_all(prog, base)
    if ode0 is None:
        return prog.result()
    r = load_in_subprocess(task["text"])
    prog.nontrivial = task["text"] != base
    if not r["ok"]:
        kind = "LoadHangs" if r.get("hang") else "EditedTextRejected"
        prog.fact("loads", False, kind, f"inert edit [{edit}] makes a loadable model fail: {r['error']}")
        return prog.result()
    prog.fact("loads", True, "", "")
    memb0 = {}
    for comp in ode0.components:
        for a in tuple(comp.states) + tuple(comp.parameters) + tuple(comp.intermediates) + tuple(comp.state_derivatives):
            memb0.setdefault(a.name, set()).update(a.components)
    memb0 = {k: sorted(v) for k, v in memb0.items()}
    prog.fact("membership", r["membership"] == memb0, "MembershipChanged",
              f"inert edit [{edit}] changes component membership: " + str({k: (memb0.get(k), v) for k, v in r["membership"].items() if memb0.get(k) != v})[:200])
    from ..views import PyView
    code0 = checks.generate(prog, "numpy|base", pipeline.gen_py, ode0, schemes=["explicit_euler"])
    if code0 is None:
        return prog.result()
    v0 = PyView(code0, "numpy")
    try:
        v1 = PyView(r["code"], "numpy")
    except SyntaxError as e:
        prog.fact("numpy|parse", False, "SyntaxError", str(e))
        return prog.result()
    for kind in ("state", "parameter", "monitor"):
        prog.fact(f"{kind}_index", v0.index_map(kind) == v1.index_map(kind), "LayoutChanged",
                  f"inert edit [{edit}] changes the {kind} layout: {v0.index_map(kind)} vs {v1.index_map(kind)}")
    dom = checks.model_domain(prog, m0)
    for fn in ("rhs", "monitor_values", "explicit_euler"):
        r0 = checks.sym_function(prog, v0, fn, label=f"numpy|{fn}|base|exec")
        r1 = checks.sym_function(prog, v1, fn, label=f"numpy|{fn}|edited|exec")
        if r0 is None or r1 is None:
            continue
        for idx in sorted(set(r0[0]) | set(r1[0])):
            label = f"numpy|{fn}|slot{idx}"
            if idx not in r0[0] or idx not in r1[0]:
                prog.fact(label, False, "SlotNotWritten", f"{fn} slot {idx} written by only one")
                continue
            ge = (lambda inputs, idx=idx, fn=fn: v1.concrete(fn, inputs)[idx])
            re_ = (lambda inputs, idx=idx, fn=fn: v0.concrete(fn, inputs)[idx])
            prog.eq(label, dom, r1[0][idx], r0[0][idx], gen_eval=ge, ref_eval=re_, what=f"{fn}[{idx}] after inert edit [{edit}] vs base")
    if len(prog.samples) < 3:
        prog.samples.append({"edit": edit, "text": task["text"][:300]})
    return prog.result()


def bounds(tier):
    return {"comment_strings": len(COMMENTS), "placements": PLACES, "layout_edits": 19, "load_wall_limit_s": LOAD_LIMIT,
            "selection": "all layout edits + 12 fixed + 60 sampled comment placements per base" if tier == "quick" else "full product"}
