"""C07 - hybrid Rush-Larsen = RL on exactly the stiff states, Euler elsewhere."""
from __future__ import annotations

import itertools

from .. import families, checks
from ..core import Prog, witness_tasks, text_id
from . import c06

PROP = "C07"
LEVEL = "translation_validation"
RULE = ("RL program family with 2-3 states x every subset S of the states (plus one foreign name) as stiff_states x "
        "backends; relational: slot X of hybrid == slot X of generalized_rush_larsen (X in S) or explicit_euler (X not in S) "
        "of the same module, for all real inputs; non-trivial = subset neither empty nor full")
FUNCTIONS = ["gotranx.schemes.hybrid_rush_larsen", "gotranx.cli.utils.add_schemes", "emitted hybrid_rush_larsen / generalized_rush_larsen / explicit_euler"]
ASSUME = ["relational check inside one emitted module; the meaning of generalized_rush_larsen and explicit_euler themselves is C06/C05",
          "subsets are enumerated exhaustively (<= 3 states => <= 8 subsets + foreign name); inputs solver-quantified"]

MODELS = [
    ("parameters(a=0.5, b=2.0, tau=3.0)\nstates(x=1.0, y=2.0, z=0.5)\n"
     "u = a*x + y\ndx_dt = -x*x + u\ndy_dt = (a - y)*exp(-x) + z\ndz_dt = -b*z + sin(x)\n"),
    ("parameters(a=0.5, b=2.0)\nstates(x=1.0, y=2.0)\n"
     "dx_dt = Conditional(Gt(y, 0), -a*x, -b*x) + y\ndy_dt = x - y*y*y\n"),
    ("parameters(g=0.3, e=-60.0, c=1.0)\nstates(V=-80.0, m=0.1, h=0.9)\n"
     "minf = 1/(1 + exp(-(V + 40)/8))\ntm = 1 + 2*exp(-V*V/900)\n"
     "dm_dt = (minf - m)*tm\ndh_dt = 0.25*(1 - h) - h*exp(V/20)\ndV_dt = -(g*(V - e) + m*m*m*h*(V - 50))/c\n"),
    ("parameters(k=2.0)\nstates(p=1.0, q=0.0)\ndp_dt = q\ndq_dt = -k*p\n"),
    # the linearisation of b vanishes only at the DEFAULT parameter values
    ("parameters(k_on=0, k_off=0, g=0.3)\nstates(b=0.5, V=-80.0)\ndb_dt = k_on*(1 - b) - k_off*b\ndV_dt = -g*(V + 60)*(1 - b)\n"),
    # state names that are prefixes of each other (a stiff name must match the whole state name)
    ("parameters(k=2.0, g=0.5)\nstates(Ca=1.0, Ca_sr=2.0, Ca_ss=0.5, V=-80.0)\n"
     "dCa_dt = -k*Ca*Ca_ss + Ca_sr\ndCa_sr_dt = g*(Ca - Ca_sr)*V\ndCa_ss_dt = -Ca_ss*Ca_ss + Ca\ndV_dt = -g*V*Ca\n"),
    # linearisations that vanish at some inputs without being identically zero
    ("parameters(a=0.5, b=2.0, c=1.5)\nstates(x=1.0, y=2.0)\ndx_dt = -a*x*y + b\ndy_dt = -c*y*y*y + x\n"),
]


def tasks(tier, seed):
    out = []
    backends = ["numpy", "jax", "c"]
    n = 0
    for text in MODELS:
        import re
        states = re.search(r"states\(([^)]*)\)", text).group(1)
        names = [s.split("=")[0].strip() for s in states.split(",")]
        subsets = []
        for r in range(len(names) + 1):
            subsets += [list(c) for c in itertools.combinations(names, r)]
        subsets.append([names[0], "not_a_state"])
        subsets.append(["not_a_state"])
        if "Ca_sr" in names:
            subsets += [["C"], ["Ca_"], ["Ca_s", "V"], ["Ca.*"], ["a"]]
        for S in subsets:
            bs = backends if tier != "quick" else [backends[n % 3]]
            n += 1
            delta = [1e-8, 0.05, 0.5, 0.0][n % 4]
            out.append({"family": "HYB", "id": text_id(text, [S, delta]), "text": text, "opts": {"stiff": S, "backends": bs, "delta": delta}})
    if tier != "quick":
        for p in families.corpus(["fitzhughnagumo.ode", "beeler_reuter_1977.ode", "lorentz.ode"]):
            import re as _re
            out.append(dict(p, opts={"stiff": None, "backends": ["numpy"]}))
    from .. import gen
    import random as _random
    for i, p in enumerate(gen.programs(tier, seed, 40, 400, "std")):
        names = p["meta"]["states"]
        rr = _random.Random(f"stiff/{p['id']}")
        S = [s for s in names if rr.random() < 0.5]
        if rr.random() < 0.2:
            S.append(rr.choice(p["meta"]["params"] + p["meta"]["inters"] + ["not_a_state"]))   # a name that is no state
        out.append(dict(p, opts={"stiff": S, "backends": [backends[i % 3]], "delta": [1e-8, 0.05, 0.5, 0.0][i % 4]}))
    return out + witness_tasks(PROP)


def check_hybrid(prog, view, m, Sset, tag):
    """Relational: slot X of hybrid == slot X of generalized_rush_larsen (X stiff) or explicit_euler (otherwise) of the same module."""
    parts = {}
    for fn in ("explicit_euler", "generalized_rush_larsen", "hybrid_rush_larsen"):
        r = checks.sym_function(prog, view, fn)
        parts[fn] = r[0] if r else None
    if any(v is None for v in parts.values()):
        return
    dom = checks.model_domain(prog, m)
    for s, idx in checks.state_slots(view, m).items():
        other = "generalized_rush_larsen" if s in Sset else "explicit_euler"
        label = f"{tag}|hybrid|{s}|vs-{other}"
        if idx not in parts["hybrid_rush_larsen"] or idx not in parts[other]:
            prog.fact(label, False, "SlotNotWritten", f"slot {idx} ({s}) missing")
            continue
        ge = (lambda inputs, idx=idx: view.concrete("hybrid_rush_larsen", inputs)[idx])
        re_ = (lambda inputs, idx=idx, other=other: view.concrete(other, inputs)[idx])
        prog.eq(label, dom, parts["hybrid_rush_larsen"][idx], parts[other][idx], gen_eval=ge, ref_eval=re_,
                what=f"hybrid[{s}] (stiff={sorted(Sset)}) vs {other}[{s}]")


def work(task, prop=PROP):
    prog = Prog(prop, task, timeout_ms=15000)
    m, ode = checks.load_all(prog, task["text"])
    if ode is None:
        return prog.result()
    o = task.get("opts", {})
    S = o.get("stiff")
    if S is None:  # corpus: every second state stiff
        S = sorted(m.states)[::2]
    Sset = set(S)
    shared = list(S)   # the SAME list object is handed to every generation, as a caller would do
    backends = list(o.get("backends", ["numpy"]))
    if len(backends) == 1:
        backends = backends + backends   # generate twice: the second generation must see the same stiff states
    for gi, backend in enumerate(backends):
        view = checks.make_view(prog, ode, backend, label=f"{backend}|get_code|gen{gi}",
                                schemes=["explicit_euler", "generalized_rush_larsen", "hybrid_rush_larsen"],
                                stiff_states=shared, delta=o.get("delta", 1e-8))
        prog.fact(f"{backend}|gen{gi}|stiff-list-untouched", shared == list(S), "InputMutated",
                  f"the caller's stiff_states list was modified by code generation: {shared} (was {list(S)})")
        if view is None:
            continue
        check_hybrid(prog, view, m, Sset, f"{backend}|gen{gi}")
        if backend == "c":
            view.close()
    real = Sset & set(m.states)
    prog.nontrivial = 0 < len(real) < len(m.states)
    return prog.result()


def bounds(tier):
    return {"models": len(MODELS), "subsets": "all subsets of <= 3 states + foreign names", "inputs": "all reals incl. dt"}
