"""C14 - generated NumPy functions are vectorised: columns are independent."""
from __future__ import annotations

import z3

from .. import families, checks, pipeline, pysym
from ..core import Prog, witness_tasks, text_id, differs
from ..pysym import ArtefactError, Unsupported
from ..views import PyView
from . import c06

PROP = "C14"
LEVEL = "translation_validation"
RULE = ("COND/FUNC/RL/LAYOUT programs + split sub-models; every emitted NumPy function is executed symbolically in batched "
        "mode with N=2 independent symbolic columns (parameters scalar and per-column, t scalar and per-column) with numpy's "
        "shape/broadcast/failure rules typed, and column j is proved equal to the scalar-mode term on column j's inputs; "
        "non-trivial = the program contains a conditional, boolean connective, abs, floor or Mod")
FUNCTIONS = ["GotranPythonCodePrinter (_print_Piecewise, _print_And/_print_Or, _print_sign, _print_Equality)",
             "CodeGenerator._shape_info", "templates/python.py method", "emitted rhs, monitor_values, missing_values, explicit_euler, generalized_rush_larsen, hybrid_rush_larsen"]
ASSUME = ["N = 2 symbolic columns; elementwise lifting makes N irrelevant for everything typed as elementwise",
          "numpy failure model: python `if/else`, `and/or/not`, float() on an array, ufunc.reduce over a ragged tuple, vector into a 1-D slot "
          "are errors exactly as numpy raises them (each reported failure is replayed on real arrays before it is printed)"]

EXTRA = [
    "-abs(x)*x + y", "-abs(x - a)", "abs(x)*y - x", "floor(x)*y - x", "Mod(x, 2) - x", "Conditional(Gt(x, 0), -x, -2*x)",
    "Conditional(And(Gt(x, 0), Lt(y, 2), Gt(a, 0)), -x, y)", "Conditional(Or(Gt(a, 1), Lt(x, y), Eq(b, 2)), -x*x, y)",
    "Conditional(And(Le(a, 1), Gt(b, 0)), -x, x*y)", "Conditional(Eq(x, 1), 0, -x)", "-x*Conditional(Gt(t, 1), 1, 2)",
    "-sqrt(abs(x))", "-abs(x)**3", "Conditional(Gt(abs(x), 1), -x, -abs(x))", "ContinuousConditional(Gt(x, a), -x, x, 0.5)",
    "Conditional(Gt(a, 0), -x, x)", "-abs(y)*x", "Gt(x, 0)*x - x*x",
    "Conditional(Eq(x, 0.5), 1, -x)", "Conditional(Eq(x, y), 0, y - x)", "Conditional(Eq(floor(4*x)/4, 0.25), -1, -x)",
    "Conditional(Eq(a, 0.5), -x, x)", "Gt(x, 0) + Gt(y, 0) - x", "Conditional(Eq(x, 1.0), 0, -x)",
    # min / max / clamp / window idioms (one operand per column, the other shared)
    "Conditional(Le(x, a), x, a) - y", "Conditional(Ge(x, 0), x, 0) - x*y", "-Conditional(Lt(x, b), x, b)", "Conditional(Ge(x, y), x, y) - x",
    "Conditional(Le(y, 1.5), y, 1.5)*x", "Conditional(And(Ge(x, a), Le(x, b)), -x, y)", "Conditional(And(Gt(x, 0.5), Lt(x, 1.5)), 1, 0) - x",
    "Conditional(And(Ge(t, a), Le(t, b)), -x, 0)", "Conditional(Or(Lt(x, a), Gt(x, b)), -x, y)", "Conditional(Le(a, x), a, x) + Conditional(Ge(b, y), b, y)",
    "Conditional(Lt(x, 0), 0, Conditional(Gt(x, 1), 1, x)) - y",
]
HEADER = "parameters(a=0.5, b=2.0)\nstates(x=1.0, y=2.0)\n"
SCHEMES = ["explicit_euler", "generalized_rush_larsen", "hybrid_rush_larsen"]


def tasks(tier, seed):
    P = []
    for e in EXTRA:
        text = HEADER + f"dx_dt = {e}\ndy_dt = x - y\n"
        P.append({"family": "VEC", "id": text_id(text), "text": text, "meta": {"rate": e}})
    P += families.pack(families.select(families.cond_family(), 40 if tier == "quick" else None, seed), "COND", per=4)
    P += families.pack(families.select(families.func_family(), 40 if tier == "quick" else None, seed), "FUNC")
    P += families.select(c06.programs(), 12 if tier == "quick" else None, seed)
    P += families.layout_family()
    if tier != "quick":
        P += families.corpus(["lorentz.ode", "fitzhughnagumo.ode", "beeler_reuter_1977.ode"])
    from .. import gen
    P += gen.programs(tier, seed, 80, 1000, "std") + gen.programs(tier, seed, 40, 500, "full")
    out = [dict(p, opts={}) for p in P]
    from . import c13
    out.append({"family": "SPLIT", "id": text_id(c13.MODELS[0], "vec"), "text": c13.MODELS[0], "opts": {"split": "A"}})
    return out + witness_tasks(PROP)


CONFIGS = [dict(param_vec=False, t_vec=False), dict(param_vec=True, t_vec=True),
           dict(param_vec=True, t_vec=False), dict(param_vec=False, t_vec=True)]


def real_batched(view: PyView, fn, cfg, cols, single_view=None):
    """Call the really emitted function on (n, 2) arrays and per column; -> (batched, [col0, col1])."""
    import numpy as np

    ns = view.namespace()
    ns1 = (single_view or view).namespace()
    names = view.arg_names(fn)
    per = [view._arrays(c) for c in cols]

    def stack(key):
        return np.stack([p[key] for p in per], axis=1)

    args = []
    for a in names:
        if a in ("states", "missing_variables"):
            args.append(stack(a))
        elif a == "parameters":
            args.append(stack(a) if cfg["param_vec"] else per[0][a])
        elif a == "t":
            args.append(np.array([p["t"] for p in per]) if cfg["t_vec"] else per[0]["t"])
        else:
            args.append(per[0][a])
    with np.errstate(all="ignore"):
        B = np.asarray(ns[fn](*args))
        singles = []
        for j, p in enumerate(per):
            sargs = []
            for a in names:
                if a == "parameters":
                    sargs.append(p[a] if cfg["param_vec"] else per[0][a])
                elif a == "t":
                    sargs.append(p[a] if cfg["t_vec"] else per[0][a])
                elif a in ("states", "missing_variables"):
                    sargs.append(p[a])
                else:
                    sargs.append(per[0][a])
            singles.append(np.asarray(ns1[fn](*sargs)))
    return B, singles


def default_cols(view, m):
    c0, c1 = {}, {}
    for i, s in enumerate(view.index_map("state")):
        c0[f"s_{s}"], c1[f"s_{s}"] = 0.75 + i, -1.25 - i
    for i, p in enumerate(view.index_map("parameter")):
        c0[f"p_{p}"], c1[f"p_{p}"] = 0.5 + i, 1.5 + i
    for i, p in enumerate(view.index_map("missing")):
        c0[f"m_{p}"], c1[f"m_{p}"] = 0.3 + i, -0.7 - i
    c0["t"], c1["t"] = 0.5, 2.5
    c0["dt"] = c1["dt"] = 0.125
    return [c0, c1]


def singles_run(view, fn, cols, single_view=None):
    """The property compares the batched call with the calls on each column alone: when a column alone already raises
    (a model expression without a real value there), the property says nothing about that input."""
    for c in cols:
        try:
            (single_view or view).concrete(fn, c)
        except Exception:
            return False
    return True


def model_defined(m, cols):
    """Every assignment of the reference model has a real value at each column (a Python float raised to a fractional
    power silently becomes a complex number in the single-column call, an array entry becomes nan in the batched one:
    where the model is undefined the property says nothing)."""
    if m is None:
        return True
    from .. import refsem, checks as _checks
    for c in cols:
        try:
            env = _checks.env_from_inputs(m, c)
            for a in m.assigns.values():
                refsem.numeric(a, env, m)
        except Exception:
            return False
    return True


def spot_check(prog, view, m, fn, cfg, label, single_view=None):
    """Real batched call vs per-column calls for column pairs taken from a small grid of values."""
    import itertools
    grid = [-1.25, 0.75, 2.5]
    names = sorted(view.index_map("state"))
    tried = 0
    for k, (va, vb) in enumerate(itertools.product(grid, repeat=2)):
        cols = default_cols(view, m)
        for i, s in enumerate(names):
            cols[0][f"s_{s}"] = va + 0.1 * i
            cols[1][f"s_{s}"] = vb - 0.1 * i
        try:
            B, S = real_batched(view, fn, cfg, cols, single_view)
        except Exception as e:
            if not singles_run(view, fn, cols, single_view):
                prog.skip(label + f"|spot{k}", "the call on a single column raises as well: outside the property")
                continue
            prog.fact(label + f"|spot{k}", False, "BatchedCallRaised", f"real call on (n, 2) arrays raised {type(e).__name__}: {str(e)[:200]}")
            return "raised"
        tried += 1
        n_out = S[0].shape[0]
        bad = [(i, j) for i in range(n_out) for j in range(2)
               if B.shape != (n_out, 2) or differs(float(B[i, j]), float(S[j][i]))]
        if bad and not model_defined(m, cols):
            continue
        if bad:
            prog.fact(label + f"|spot{k}", False, "ColumnsDiffer",
                      f"{fn}: column of the batched call differs from the single-column call at slots {bad[:4]} (columns {cols[0]} / {cols[1]})"[:400])
            return "violation"
    return f"{tried} column pairs agree"


def check_function(prog: Prog, view: PyView, m, fn, cfg, tag, single_view=None):
    c = prog.ctx
    label = f"numpy|{fn}|{tag}"
    try:
        px = pysym.PyExec(c, view.mod, ncols=2, **cfg)
        res = px.run(fn)
        if not isinstance(res, pysym.Arr):
            raise ArtefactError("BadReturn", "not an array")
    except ArtefactError as e:
        def confirm():
            try:
                B, singles = real_batched(view, fn, cfg, default_cols(view, m), single_view)
            except Exception as ex:
                if not singles_run(view, fn, default_cols(view, m), single_view):
                    return False, "the call on a single column raises as well: outside the property"
                return True, f"real call on (n, 2) arrays raised {type(ex).__name__}: {str(ex)[:200]}"
            return False, "real batched call did not raise"
        prog.structural(label + "|batched-exec", e, confirm)
        return
    except Unsupported as e:
        # not encodable: concrete spot-check on real arrays for several column pairs (replay machinery as a safety net)
        spot = spot_check(prog, view, m, fn, cfg, label, single_view)
        prog.skip(label, f"unsupported construct in emitted code ({e}); concrete spot-check on real (n, 2) arrays: {spot}")
        return
    prog.fact(label + "|shape", bool(res.batched), "WrongShape", f"{fn} does not return an (n_out, N) array for (n, N) states")
    if not res.batched:
        return
    singles = []
    for j in range(2):
        try:
            pj = pysym.PyExec(c, (single_view or view).mod, ncols=1, scalar_suffix=f"@{j}", **cfg)
            singles.append(pj.run(fn))
        except (ArtefactError, Unsupported) as e:
            prog.skip(label, f"scalar-mode run failed: {e}")
            return
    for idx in range(res.length):
        v = res.get(idx)
        if v is None:
            prog.fact(label + f"|slot{idx}", False, "UnsetRead", f"{fn} slot {idx} unset in batched mode")
            continue
        for j in range(2):
            col = v.cols[j] if v.vec else v.cols[0]
            sv = singles[j].get(idx)
            if sv is None:
                continue

            def ge(inputs, idx=idx, j=j):
                cols = [{k[:-2]: val for k, val in inputs.items() if k.endswith(f"@{jj}")} for jj in range(2)]
                for cc in cols:
                    for k, val in inputs.items():
                        if "@" not in k:
                            cc.setdefault(k, val)
                B, _ = real_batched(view, fn, cfg, cols, single_view)
                return float(B[idx, j])

            def re_(inputs, idx=idx, j=j):
                cols = [{k[:-2]: val for k, val in inputs.items() if k.endswith(f"@{jj}")} for jj in range(2)]
                for cc in cols:
                    for k, val in inputs.items():
                        if "@" not in k:
                            cc.setdefault(k, val)
                _, S = real_batched(view, fn, cfg, cols, single_view)
                return float(S[j][idx])

            prog.eq(label + f"|slot{idx}|col{j}", [], col, sv.cols[0], gen_eval=ge, ref_eval=re_,
                    what=f"{fn} column {j} of the batched call vs the call on column {j} alone")
    # one real batched run per function as a cross-check of the shape/failure model
    try:
        B, S = real_batched(view, fn, cfg, default_cols(view, m), single_view)
        ok = B.shape == (res.length, 2) and all(
            not differs(float(B[i, j]), float(S[j][i])) for i in range(res.length) for j in range(2))
        if not ok and not model_defined(m, default_cols(view, m)):
            prog.skip(label + "|real-arrays", "the model has no real value at the sample columns: outside the property")
        else:
            prog.fact(label + "|real-arrays", ok, "ColumnsDiffer", f"real call: batched shape {B.shape}, columns differ from single calls")
    except Exception as e:
        if not singles_run(view, fn, default_cols(view, m), single_view):
            prog.skip(label + "|real-arrays", "the call on a single column raises as well: outside the property")
            return
        prog.fact(label + "|real-arrays", False, "BatchedCallRaised", f"real call on (n, 2) arrays raised {type(e).__name__}: {str(e)[:200]}")


def work(task):
    prog = Prog(PROP, task, timeout_ms=10000)
    m, ode = checks.load_all(prog, task["text"])
    if ode is None:
        return prog.result()
    o = task.get("opts", {})
    fns = ["rhs", "monitor_values"] + SCHEMES
    mv = None
    if o.get("split"):
        comp = ode.get_component(o["split"])
        sub = comp.to_ode()
        rest = ode - comp
        mv = dict(sub.missing_variables)
        ode = rest
        fns = fns + ["missing_values"]
    stiff = sorted(m.states)[:1]
    def gen():
        return pipeline.gen_py(ode, schemes=SCHEMES, stiff_states=stiff, missing_values=mv)
    code = checks.generate(prog, "numpy|get_code", gen)
    if code is None:
        # RL schemes may be ungeneratable (C06); retry with Euler only
        prog.violations = []
        prog.obligations = 0
        fns = [f for f in fns if "rush" not in f]
        code = checks.generate(prog, "numpy|get_code", lambda: pipeline.gen_py(ode, schemes=["explicit_euler"], missing_values=mv))
        if code is None:
            return prog.result()
    view = PyView(code, "numpy")
    if task["family"] in ("VEC", "LAYOUT", "WIDE", "SPLIT"):
        # the documented shape option: 'multiple' is for (n, N) batches, 'single' for 1-D states
        code_m = checks.generate(prog, "numpy|get_code|shape=multiple",
                                 lambda: pipeline.gen_py(ode, schemes=["explicit_euler"], missing_values=mv, shape="multiple"))
        if code_m is not None:
            vm = PyView(code_m, "numpy")
            for fn in ("rhs", "monitor_values", "explicit_euler") + (("missing_values",) if mv else ()):
                if vm.has(fn):
                    check_function(prog, vm, m, fn, CONFIGS[0], "shape-multiple", single_view=view)
    cfgs = CONFIGS if task["family"] in ("VEC", "SPLIT") else CONFIGS[:2]
    for ci, cfg in enumerate(cfgs):
        tag = ("pvec" if cfg["param_vec"] else "pscal") + "-" + ("tvec" if cfg["t_vec"] else "tscal")
        for fn in fns:
            if view.has(fn):
                check_function(prog, view, m, fn, cfg, tag)
    txt = task["text"]
    prog.nontrivial = any(k in txt for k in ("Conditional", "And(", "Or(", "abs(", "Abs(", "floor(", "Mod(", "Gt(", "Lt("))
    return prog.result()


def bounds(tier):
    return {"N": 2, "configs": "parameters scalar/per-column x t scalar/per-column", "programs": "VEC + COND + FUNC + RL + LAYOUT (+corpus)",
            "inputs": "all reals, the two columns independent"}
