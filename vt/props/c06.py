"""C06 - generalized Rush-Larsen follows the guarded exponential-integrator formula."""
from __future__ import annotations

from .. import families, checks
from ..core import Prog, witness_tasks, text_id

PROP = "C06"
LEVEL = "translation_validation"
RULE = ("RL program family (rates polynomial/rational/exp/log/trig/conditional in the own state, with intermediates) "
        "x delta in {1e-8, 1e-3, 0.5} x backends; g comes from the independent differentiator of vt/refsem.py with all "
        "other names held fixed; non-trivial = at least one state with g not identically zero")
FUNCTIONS = ["gotranx.schemes.generalized_rush_larsen", "fraction_numerator_is_nonzero", "CodeGenerator.scheme",
             "emitted generalized_rush_larsen (numpy, jax, C via LLVM IR)"]
ASSUME = [
    "obligations per state: |g|>delta => out = x + f/g(exp(g dt)-1); |g|<=delta => out = x + dt f; g==0 identically => Euler; dt=0 => x",
    "'converges to Euler as dt->0' is a consequence of the formula and not separately encoded",
    "rates using floor/Mod of the own state are outside the differentiator (generation itself raises today: known finding)",
]

RATES = [
    "-x/tau", "(xinf - x)/tau", "a*(1 - x) - b*x", "-k*x", "a - x*x", "-x**3 + a*x", "y - x", "a*y", "-x*y",
    "-exp(-y)*x + a", "(a - x)/(1 + y*y)", "x*(1 - x)*(x - a)", "-x/(1 + x*x)", "exp(-x) - a", "-x*exp(-x)", "sin(x) - a*x",
    "log(1 + x*x) - x", "-sqrt(1 + x*x)", "Conditional(Gt(x, 0), -x, -2*x)", "Conditional(Gt(y, 0), -x, a)",
    "Conditional(Gt(y, 0), -a*x, -b*x) + y", "-abs(y)*x", "m_inf - x*rate", "(m_inf - x)/tau_m", "alpha*(1 - x) - beta*x",
    "-x*x*y + a", "1/(1 + exp(-x)) - x", "-g_l*(x - e_l) - i_k", "a", "t - x", "-(x - y)/tau", "cos(t)*x",
    "b - a*abs(x - k)", "-abs(x)*x + y", "-abs(x) + a", "a*abs(x - y) - x", "-k*x*y",
    # parameters whose DEFAULT value is zero / one: the linearisation vanishes (or simplifies) only for the defaults
    "a - z0*x", "z0*(1 - x) - z1*x", "-z0*x*y + a", "-(x - y)*z0/tau", "-one*x + a", "-x*(z0 + k)",
    # the own state in a denominator (the derivative is a negative power)
    "a/x", "-b/(k + x)", "a*x/(b + x)", "-x/(k + x)**2", "a/(x*x) - x", "y/(1 + x)**3",
    # real (integer-valued) exponents on products / quotients that contain the own state: sympy's general power rule gives
    # p*u**p/x, 0/0 at x = 0 (fixed d681e38)
    # floor / Mod of time and of OTHER quantities next to a smooth own-state term: the linearisation is the smooth part's
    "-k*x + a*floor(t/tau)", "-k*x + Mod(t, b)", "a*floor(y) - x/tau", "-x*floor(t) + a", "Mod(y, b)*(1 - x) - k*x", "-k*x*x + floor(t/tau)*y",
    "y - (a*x)**2.0 - x", "-(x*y)**2.0 - x + a", "a - (x/tau)**3.0", "-x*(b*x)**2.0 - k*x", "y - exp(-(a*x)**2.0) - x", "-(a*x)**2.0/(1 + y*y) - x",
]

HEADER = ("parameters(a=0.5, b=2.0, tau=3.0, xinf=1.0, k=0.25, g_l=0.3, e_l=-60.0, z0=0.0, z1=0, one=1.0)\n"
          "states(x=1.0, y=2.0)\n"
          "m_inf = 1/(1 + exp(-y))\nrate = 1 + y*y\ntau_m = 1 + abs(y)\nalpha = exp(y/2)\nbeta = 0.25*exp(-y)\ni_k = b*y\n")


def programs():
    out = []
    for r in RATES:
        for yr in ["-y + x", "a*(x - y)"]:
            if r == "-k*x*y":
                yr = "-k*x*y"   # two states with textually identical rates
            text = HEADER + f"dx_dt = {r}\ndy_dt = {yr}\n"
            out.append({"family": "RL", "id": text_id(text), "text": text, "meta": {"rate": r}})
            break
    return out


def tasks(tier, seed):
    P = programs()
    deltas = [1e-8, 1e-3, 0.5]
    backends = ["numpy", "jax", "c"]
    out = []
    for i, p in enumerate(P):
        if tier == "quick":
            out.append(dict(p, opts={"delta": deltas[i % 3], "backends": [backends[i % 3]]}))
        else:
            for d in deltas:
                out.append(dict(p, opts={"delta": d, "backends": backends}))
    if tier != "quick":
        for p in families.corpus():
            out.append(dict(p, opts={"delta": 1e-8, "backends": ["numpy"]}))
    else:
        for p in families.corpus(["fitzhughnagumo.ode"]):
            out.append(dict(p, opts={"delta": 1e-8, "backends": ["numpy"]}))
    from .. import gen
    for i, p in enumerate(gen.programs(tier, seed, 60, 600, "std")):
        out.append(dict(p, opts={"delta": deltas[i % 3], "backends": [backends[i % 3]]}))
    return out + witness_tasks(PROP)


def work(task):
    prog = Prog(PROP, task, timeout_ms=15000)
    m, ode = checks.load_all(prog, task["text"])
    if ode is None:
        return prog.result()
    o = task.get("opts", {})
    for backend in o.get("backends", ["numpy"]):
        view = checks.make_view(prog, ode, backend, schemes=["generalized_rush_larsen", "forward_generalized_rush_larsen"],
                                delta=o.get("delta", 1e-8))
        if view is None:
            continue
        checks.check_grl(prog, view, m, o.get("delta", 1e-8))
        # the accepted (deprecated) alias must honour delta as well
        if view.has("forward_generalized_rush_larsen"):
            checks.check_grl(prog, view, m, o.get("delta", 1e-8), fn="forward_generalized_rush_larsen", tag="|alias")
        else:
            prog.fact(f"{backend}|alias|exists", False, "MissingFunction", "forward_generalized_rush_larsen not emitted")
        if backend == "c":
            view.close()
    prog.nontrivial = prog.stats.solver_s > 0
    return prog.result()


def bounds(tier):
    return {"rates": len(RATES), "delta": [1e-8, 1e-3, 0.5], "inputs": "all reals in the domain of f and g, incl. dt",
            "solver_timeout_ms": 15000}
