"""C13 - a component split yields complementary sub-models that reproduce the full model."""
from __future__ import annotations

import re

import z3

from .. import families, checks, pipeline, refsem
from ..core import Prog, witness_tasks, text_id
from ..refsem import Evaluator, RefError

PROP = "C13"
LEVEL = "translation_validation"
RULE = ("multi-component models x every component C as the split (A = C.to_ode(), B = model - C through the real API) x "
        "backends {numpy, jax, c}; missing-variable sets are compared with (names read) - (names defined) computed by the "
        "independent reference parser; every rhs/monitor/scheme slot of A and B, with its symbolic missing_variables "
        "substituted by the full model's meaning, is proved equal to the full model's reference for all real inputs; "
        "missing_values of each side feeds the other; non-trivial = both sub-models have missing variables")
FUNCTIONS = ["ODE.__sub__", "BaseComponent.to_ode", "ODE.missing_variables", "CodeGenerator.missing_index/_missing_variables_assignments/missing_values",
             "emitted rhs, monitor_values, explicit_euler, generalized_rush_larsen, missing_values of both sub-models"]
ASSUME = ["components are enumerated; inputs solver-quantified", "the C backend must compile (gcc/clang default mode) and is then checked through LLVM IR like the others"]

MODELS = [
    ('parameters("A", a=0.5)\nparameters("B", b=2.0)\nstates("A", x=1.0)\nstates("B", y=2.0, z=0.5)\n'
     'expressions("A")\nia = a*x + y\ndx_dt = -ia + z\n'
     'expressions("B")\nib = b*y - x\ndy_dt = ib/b\ndz_dt = -z + ib + ia\n'),
    ('parameters("M", g=0.3, e=-60.0)\nparameters("G", k=2.0)\nstates("M", V=-80.0)\nstates("G", m=0.1, h=0.9)\n'
     'expressions("G")\nminf = 1/(1 + exp(-(V + 40)/8))\ndm_dt = (minf - m)*k\ndh_dt = 0.25*(1 - h) - h*exp(V/20)\n'
     'expressions("M")\nileak = g*(V - e)\nina = m*m*m*h*(V - 50)\ndV_dt = -(ileak + ina)\n'),
    ('parameters("P", p=1.0)\nparameters("Q", q=2.0)\nparameters("R", r=3.0)\nstates("P", u=1.0)\nstates("Q", v=2.0)\nstates("R", w=3.0)\n'
     'expressions("P")\nup = p*u + v\ndu_dt = -up\n'
     'expressions("Q")\nvq = q*v - w\ndv_dt = vq + up\n'
     'expressions("R")\nwr = r*w*t\ndw_dt = -wr + vq*u\n'),
    ('parameters("A", a=0.5)\nstates("A", x=1.0)\nstates("B", y=2.0)\n'
     'expressions("A")\ndx_dt = -a*x\n'
     'expressions("B")\ndy_dt = Conditional(Gt(x, 0.5), x - y, -y)\n'),
]
MODELS += [
    # atoms without a component next to named components; component names that contain each other
    ('parameters(sigma=12.0)\nparameters("slow", rho=21.0, beta=2.4)\nstates(x=1.0)\nstates("slow", y=2.0, z=3.05)\n'
     'dx_dt = sigma*(y - x)\n'
     'expressions("slow")\na = rho - z\ndy_dt = x*a - y\ndz_dt = x*y - beta*z\n'),
    ('parameters("Ca", k=2.0)\nparameters("Ca buffer", kb=0.5, btot=3.0)\nparameters("Ca buffer 2", kc=0.25)\n'
     'states("Ca", ca=1.0)\nstates("Ca buffer", b=0.2)\nstates("Ca buffer 2", c=0.1)\n'
     'expressions("Ca")\njrel = k*(1 - ca)\ndca_dt = jrel - jbuf - jc\n'
     'expressions("Ca buffer")\njbuf = kb*ca*(btot - b)\ndb_dt = jbuf\n'
     'expressions("Ca buffer 2")\njc = kc*ca - c\ndc_dt = jc\n'),
    # an intermediate used only by the OTHER half (unused inside its own sub-model)
    ('parameters("slow", k=0.5)\nparameters("fast", g=2.0)\nstates("slow", x=1.0)\nstates("fast", y=2.0)\n'
     'expressions("slow")\nleak = k*x**2\ndx_dt = -k*x + y\n'
     'expressions("fast")\ndy_dt = -g*y + leak\n'),
]
MODELS += [
    # a component that reads the time derivative of another component's state
    ('parameters("Membrane", g=0.3, e=-60.0)\nparameters("Cap", Cm=2.0)\nstates("Membrane", V=-80.0)\nstates("Cap", q=0.1)\n'
     'expressions("Membrane")\nileak = g*(V - e)\ndV_dt = -ileak + q\n'
     'expressions("Cap")\ni_cap = Cm*dV_dt\nzz = i_cap*2 + ileak\ndq_dt = -q + i_cap + zz\n'),
    # the consumer needs two intermediates of the producer whose alphabetical order (act < zeta) is the reverse of their evaluation order
    ('parameters("Prod", k=2.0)\nparameters("Cons", c=0.5)\nstates("Prod", p=1.0)\nstates("Cons", q=0.3)\n'
     'expressions("Prod")\nzeta = k*p + 1\nact = zeta*zeta - p\ndp_dt = -act\n'
     'expressions("Cons")\ndq_dt = -c*q + act - zeta\n'),
    # two missing variables, one of them read only by an intermediate nothing depends on
    ('parameters("A", a=0.5)\nstates("A", x=1.0)\nstates("B", ca=0.2, v=-1.0)\n'
     'expressions("A")\nmon_only = a*ca\ndx_dt = -a*x + v\n'
     'expressions("B")\ndca_dt = -ca + x\ndv_dt = -v*ca\n'),
]
SCHEMES = ["explicit_euler", "generalized_rush_larsen"]


def tasks(tier, seed):
    out = []
    n = 0
    for text in MODELS:
        comps = sorted(set(re.findall(r'expressions\("([^"]+)"\)', text)))
        if re.search(r"^states\(\w", text, re.M):
            comps.append("")
        for c in comps:
            bs = ["numpy", "jax", "c"] if tier != "quick" else [["numpy", "jax", "c"][n % 3], "numpy"]
            n += 1
            out.append({"family": "SPLIT", "id": text_id(text, c), "text": text, "opts": {"component": c, "backends": sorted(set(bs))}})
            out.append({"family": "SPLIT", "id": text_id(text, c + "|ru"), "text": text,
                        "opts": {"component": c, "backends": ["numpy"], "remove_unused": True}})
    for k, text in enumerate(MODELS[:6]):
        comps = sorted(set(re.findall(r'expressions\("([^"]+)"\)', text)))
        for handle in ("reload", "stale"):
            out.append({"family": "SPLIT", "id": text_id(text, comps[k % len(comps)] + "|" + handle), "text": text,
                        "opts": {"component": comps[k % len(comps)], "backends": ["numpy"], "handle": handle}})
    # generated splits: programs of the shared value universe (dependency DAGs, expression / function / conditional
    # packs, the wide program) with their declarations distributed over 2-3 components, every component as the split
    V = families.value_programs(tier, seed)
    pool = [p for p in V if p["family"] in ("DAG", "FUNC", "COND", "WIDE", "EXPR")]
    pool = families.select(pool, 24 if tier == "quick" else 700, seed)
    for j, p in enumerate(pool):
        for k in ((2,) if tier == "quick" else (2, 3)):
            text = families.componentise(p["text"], k, seed + j)
            if text is None:
                continue
            for c in sorted(set(re.findall(r'expressions\("([^"]+)"\)', text))):
                b = ["numpy", "jax", "c"][(j + n) % 3]
                n += 1
                out.append({"family": "GENSPLIT", "id": text_id(text, c), "text": text,
                            "opts": {"component": c, "backends": [b], "remove_unused": bool(j % 4 == 3 and b == "numpy")}})
    # GEN programs that are written with 2-3 components (both block keywords, shared readers, unused declarations)
    from .. import gen
    G = [p for p in gen.programs("thorough", seed, 0, 300 if tier == "quick" else 2400, "std") if p["meta"]["ncomp"] >= 2]
    if tier == "quick":
        G = families.select(G, 40, seed)
    for j, p in enumerate(G):
        for c in sorted(set(re.findall(r'(?:expressions|component)\("([^"]+)"\)', p["text"]))):
            b = ["numpy", "jax", "c"][(j + n) % 3]
            n += 1
            out.append({"family": "GEN", "id": p["id"] + "|" + c, "text": p["text"],
                        "opts": {"component": c, "backends": [b], "remove_unused": bool(j % 4 == 3 and b == "numpy")}})
    return out + witness_tasks(PROP)


def sub_names(m: refsem.Model, comps):
    comps = set(comps)
    states = [s for s in m.states if set(m.comp[s]) & comps]
    params = [p for p in m.params if set(m.comp[p]) & comps]
    assigns = [a for a in m.assigns if set(m.comp[a]) & comps]
    return states, params, assigns


def expected_missing(m, states, params, assigns):
    defined = set(states) | set(params) | set(assigns) | {"t", "time"}
    used = set()
    for a in assigns:
        used |= m.uses(a)
    return sorted(used - defined)


def missing_hyps(prog, full, missing_names):
    """Hypotheses m_k == (full model's meaning of k).  (Equalities, not substitution: applications of
    elementary functions are Ackermann constants whose arguments substitution cannot reach.)"""
    c = prog.ctx
    hyps = []
    for k in missing_names:
        try:
            hyps.append(c.inp(f"m_{k}") == c.real(Evaluator(c, full).name_term(k, None)))
        except RefError:
            pass
    return hyps


def concrete_with_missing(view, fn, full, missing_names, inputs):
    inp = dict(inputs)
    env = checks.env_from_inputs(full, inputs)
    for k in missing_names:
        try:
            inp[f"m_{k}"] = float(refsem.numeric(("var", k), env, full))
        except RefError:
            # the witness lies outside the domain of this missing variable; the obligation's own domain guard covers
            # everything the slot depends on, so the slot cannot depend on it (if it did, NaN makes the replay disagree)
            inp[f"m_{k}"] = float("nan")
    return view.concrete(fn, inp)


def check_side(prog, full, sub_ode, other_ode, tag, states, params, assigns, backend, remove_unused=False):
    exp_missing = expected_missing(full, states, params, assigns)
    real_missing = dict(sub_ode.missing_variables)
    prog.fact(f"{tag}|missing-set", sorted(real_missing) == exp_missing, "MissingVariables",
              f"{tag}.missing_variables = {sorted(real_missing)}, names used but not defined = {exp_missing}")
    prog.fact(f"{tag}|states", sorted(s.name for s in sub_ode.states) == sorted(states), "StatesPartition",
              f"{tag} states {sorted(s.name for s in sub_ode.states)} expected {sorted(states)}")
    view = checks.make_view(prog, sub_ode, backend, label=f"{tag}|{backend}|get_code", schemes=SCHEMES, remove_unused=remove_unused)
    if view is None:
        return
    mi = view.index_map("missing")
    if backend != "c":
        prog.fact(f"{tag}|{backend}|missing_index", mi == real_missing, "MissingIndex", f"missing index {mi} vs {real_missing}")
    c = prog.ctx
    for fn, kind, names in (("rhs", "state", [f"d{s}_dt" for s in states]), ("monitor_values", "monitor", assigns)):
        res = checks.sym_function(prog, view, fn, label=f"{tag}|{backend}|{fn}|exec")
        if res is None:
            continue
        slots = res[0]
        imap = view.index_map(kind)
        for name in names:
            key = full.derivative_of(name) if kind == "state" else name
            label = f"{tag}|{backend}|{fn}|{name}"
            if key not in imap or imap[key] not in slots:
                prog.fact(label, False, "SlotNotWritten", f"{fn} has no slot for {key}")
                continue
            idx = imap[key]
            ev = Evaluator(c, full)
            ref = ev.ev(full.assigns[name])
            gen = slots[idx]
            ge = (lambda inputs, idx=idx, fn=fn: concrete_with_missing(view, fn, full, exp_missing, inputs)[idx])
            prog.eq(label, ev.dom + missing_hyps(prog, full, exp_missing), gen, ref, gen_eval=ge, ref_eval=checks.ref_eval_factory(full, full.assigns[name]),
                    what=f"{tag}.{fn}[{key}] (missing variables fed from the full model) vs full model")
    # Euler of the sub model vs its own rhs
    r_e = checks.sym_function(prog, view, "explicit_euler", label=f"{tag}|{backend}|explicit_euler|exec")
    r_r = checks.sym_function(prog, view, "rhs", label=f"{tag}|{backend}|rhs|exec2")
    if r_e and r_r:
        dom = checks.model_domain(prog, full)
        for s in states:
            idx = view.index_map("state").get(s)
            if idx is None or idx not in r_e[0] or idx not in r_r[0]:
                continue
            ge = (lambda inputs, idx=idx: concrete_with_missing(view, "explicit_euler", full, exp_missing, inputs)[idx])
            re_ = (lambda inputs, idx=idx, s=s: inputs.get(f"s_{s}", 0.0) + inputs.get("dt", 0.0) *
                   concrete_with_missing(view, "rhs", full, exp_missing, inputs)[idx])
            prog.eq(f"{tag}|{backend}|explicit_euler|{s}", dom, r_e[0][idx], c.inp(f"s_{s}") + c.inp("dt") * r_r[0][idx],
                    gen_eval=ge, ref_eval=re_, what=f"{tag}.explicit_euler[{s}] vs states + dt*rhs")
    # the OTHER side's missing_values must deliver exactly what this side misses
    if exp_missing and backend != "c":
        request = dict(real_missing)   # one request object, kept by the caller and reused

        def gen():
            pipeline.gen_py(other_ode, backend="numpy", missing_values=request, remove_unused=remove_unused)
            return pipeline.gen_py(other_ode, backend=backend, missing_values=request, remove_unused=remove_unused)
        code = checks.generate(prog, f"{tag}|{backend}|other.missing_values|get_code", gen)
        prog.fact(f"{tag}|{backend}|request-untouched", request == real_missing, "InputMutated",
                  f"the caller's missing_values request was modified by code generation: {request} (was {real_missing})")
        if code is not None:
            from ..views import PyView
            try:
                ov = PyView(code, backend)
                checks.check_length(prog, ov, "missing_values", len(real_missing), "one entry per requested missing value")
                checks.check_missing_values(prog, ov, full, real_missing, rest_missing=dict(other_ode.missing_variables))
            except SyntaxError as e:
                prog.fact(f"{tag}|{backend}|other.missing_values|parse", False, "SyntaxError", str(e))
    if backend == "c":
        view.close()


def work(task):
    prog = Prog(PROP, task, timeout_ms=15000)
    full, ode = checks.load_all(prog, task["text"])
    if ode is None:
        return prog.result()
    cname = task["opts"]["component"]
    try:
        handle = task["opts"].get("handle")
        if handle == "reload":
            # the component handle comes from a second load of the same text (an equal, not identical, object)
            comp = pipeline.load(task["text"]).get_component(cname)
        elif handle == "stale":
            # the handle was taken before the model was rebuilt by remove_singularities()
            comp = ode.get_component(cname)
            ode = ode.remove_singularities()
        else:
            comp = ode.get_component(cname)
        A = comp.to_ode()
        B = ode - comp
    except Exception as e:
        prog.fact("split", False, "SplitRaised", f"{type(e).__name__}: {e}"[:300])
        return prog.result()
    all_comps = sorted({c for n in full.comp for c in full.comp[n]})
    sA = sub_names(full, [cname])
    sB = sub_names(full, [c for c in all_comps if c != cname])
    prog.fact("partition", sorted(sA[0] + sB[0]) == sorted(full.states) and not (set(sA[0]) & set(sB[0])), "StatesPartition",
              f"states of A {sA[0]} and B {sB[0]} do not partition {sorted(full.states)}")
    for backend in task["opts"].get("backends", ["numpy"]):
        ru = task["opts"].get("remove_unused", False)
        check_side(prog, full, A, B, "A", *sA, backend, remove_unused=ru)
        check_side(prog, full, B, A, "B", *sB, backend, remove_unused=ru)
    prog.nontrivial = bool(A.missing_variables) and bool(B.missing_variables)
    return prog.result()


def bounds(tier):
    return {"models": len(MODELS), "splits": "every component of every model", "inputs": "all reals incl. dt",
            "generated": "%s programs of the value universe componentised into %s components (declarations distributed by hash; a "
                         "state stays with its derivative), every component as the split, backend rotating" %
                         (("24", "2") if tier == "quick" else ("700", "2 and 3"))}
