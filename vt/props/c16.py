"""C16 - singularity removal changes a model only at its removable singular points."""
from __future__ import annotations

import z3

from .. import families, checks, pipeline, refsem
from ..core import Prog, witness_tasks, text_id
from ..refsem import Evaluator, RefError, parse_expr
from ..smt import RV
from ..views import PyView

PROP = "C16"
LEVEL = "translation_validation"
RULE = ("SING family: sums/products of x/(exp(x)-1), sin(x)/x, (x-a)/(x-a), shifted/scaled copies, 0-3 removable singularities in "
        "1-2 states, plus non-removable 1/x and singularity-free expressions; the module emitted for ode.remove_singularities() is "
        "compared with the module of the original: equal wherever the original is defined (solver, all reals), equal to the stated "
        "limit on each singular point with all other inputs free; SINGDERIV: every single-point entry again with the singular "
        "expression written directly as dx_dt (rhs slot checked on the point); non-trivial = at least one removable singularity")
FUNCTIONS = ["Assignment.singularities", "atoms.remove_singularities", "Component.remove_singularities", "ODE.remove_singularities",
             "emitted rhs / monitor_values of both models"]
ASSUME = ["limits at the removable points are part of the family definition (standard limits, hand-derived) and are themselves cross-checked "
          "numerically against the original expression near the point at setup of each program",
          "sympy.singularities / limit are the subject, not trusted"]
TASK_LIMIT = 400

# (expression in x (and y), [(state, point text, limit text)])
SING = [
    ("x/(exp(x) - 1)", [("x", "0", "1")]),
    ("sin(x)/x", [("x", "0", "1")]),
    ("y*x/(exp(x) - 1)", [("x", "0", "y")]),
    ("(x + 40)/(exp((x + 40)/10) - 1)", [("x", "-40", "10")]),
    ("a*(x - 2)/(1 - exp(-(x - 2)/4))", [("x", "2", "4*a")]),
    ("x/(exp(x) - 1) + y", [("x", "0", "1 + y")]),
    ("x/(exp(x) - 1) + (x - 3)/(exp(x - 3) - 1)", [("x", "0", "1 + (-3)/(exp(-3) - 1)"), ("x", "3", "3/(exp(3) - 1) + 1")]),
    ("x/(exp(x) - 1) + y/(exp(y) - 1)", [("x", "0", "1 + y/(exp(y) - 1)"), ("y", "0", "x/(exp(x) - 1) + 1")]),
    ("sin(x)/x + (x - 1)/(exp(x - 1) - 1)", [("x", "0", "1 + (-1)/(exp(-1) - 1)"), ("x", "1", "sin(1)/1 + 1")]),
    ("(x/(exp(x) - 1))*(y + 1)", [("x", "0", "y + 1")]),
    ("x/(exp(x) - 1) + (x - 3)/(exp(x - 3) - 1) + (x + 2)/(exp(x + 2) - 1)",
     [("x", "0", "1 + (-3)/(exp(-3) - 1) + 2/(exp(2) - 1)"), ("x", "3", "3/(exp(3) - 1) + 1 + 5/(exp(5) - 1)"),
      ("x", "-2", "(-2)/(exp(-2) - 1) + (-5)/(exp(-5) - 1) + 1")]),
    ("x/(exp(x) - 1)/tau", [("x", "0", "1/tau")]),
    ("sin(x)/(x*(a + tau))", [("x", "0", "1/(a + tau)")]),
    ("x/(exp(x) - 1) + a/y", [("x", "0", "1 + a/y")]),
    ("y*sin(x)/(x*tau) + a", [("x", "0", "y/tau + a")]),
    ("(x - a)/(exp(x - a) - 1)", [("x", "a", "1")]),
    ("tau*(x - a)/(1 - exp(-(x - a)/tau))", [("x", "a", "tau*tau")]),
    ("sin(x - tau)/(x - tau)", [("x", "tau", "1")]),
    ("sin(y)/(y - pi)", [("y", "pi", "-1")]),
    # singular points written as float literals
    ("(x - 1.5)/(exp((x - 1.5)/4) - 1)", [("x", "1.5", "4")]),
    ("(x + 47.13)/(1 - exp(-0.1*(x + 47.13)))", [("x", "-47.13", "10")]),
    ("0.32*(x + 47.13)/(1 - exp(-0.1*(x + 47.13)))", [("x", "-47.13", "3.2")]),
    ("sin(x - 0.25)/(x - 0.25)", [("x", "0.25", "1")]),
    # removable singularities whose limit is exactly zero (a falsy sympy value)
    ("x*x/(exp(x) - 1)", [("x", "0", "0")]),
    ("(x - 2)*(x - 2)/(exp(x - 2) - 1)", [("x", "2", "0")]),
    ("y*(1 - cos(x))/x", [("x", "0", "0")]),
    ("tau*(x + 1.5)*(x + 1.5)/(1 - exp(-(x + 1.5)/4))", [("x", "-1.5", "0")]),
    ("y*x*x/(exp(x) - 1)", [("x", "0", "0")]),
    # a removable singularity inside the arms of a Conditional (the limit depends on the arm taken)
    ("Conditional(Gt(y, 1), x/(exp(x) - 1), 2*x/(exp(x) - 1))", [("x", "0", "Conditional(Gt(y, 1), 1, 2)")]),
    # a factor that appears verbatim in numerator and denominator
    ("(x - a)/(x - a)", [("x", "a", "1")]),
    ("(x + 40)*(x - 10)/(x + 40)", [("x", "-40", "-50")]),
    ("tau*(x - a)*y/(x - a)", [("x", "a", "tau*y")]),
    # one removable singularity next to a pole (in the same or in another state)
    ("(x - 1)/(x**2 - 1)", [("x", "1", "1/2")]),
    ("sin(y)/y + a/(y - 3)", [("y", "0", "1 + a/(0 - 3)")]),
    ("sin(x)/x + 1/y", [("x", "0", "1 + 1/y")]),
    ("x/(exp(x) - 1) + tau/(x + 2)", [("x", "0", "1 + tau/2")]),
    ("1/x", []),
    ("y/(x - 1)", []),
    ("x*y + exp(-x)", []),
    ("a*x/(1 + x*x)", []),
    ("1/x + x/(exp(x) - 1)", []),
]
HEADER = "parameters(a=0.5, tau=3.0)\nstates(x=1.0, y=2.0)\n"
# the singular expression lives in a component that declares no states of its own
MULTI = ('parameters("Rates", k=2.0)\nstates("Membrane", x=1.0)\nstates("Gate", y=0.5)\n'
         'expressions("Rates")\ns = k*x/(exp(x) - 1)\n'
         'expressions("Membrane")\ndx_dt = -s\n'
         'expressions("Gate")\ndy_dt = s - y\n')


# the singular point is in the own state of a later component and the value is consumed by an earlier one
MULTI2 = ('parameters("Rates", k=2.0)\nstates("Membrane", x=1.0)\nstates("Gate", y=0.5)\n'
          'expressions("Gate")\ns = k*sin(y)/y\ndy_dt = s - y\n'
          'expressions("Membrane")\ndx_dt = -s*x\n')


def tasks(tier, seed):
    out = []
    for e, pts in SING:
        text = HEADER + f"s = {e}\ndx_dt = -s\ndy_dt = x - y\n"
        out.append({"family": "SING", "id": e, "text": text, "opts": {"points": pts, "expr": e}})
    # the singular expression is the right-hand side of a state derivative itself (no intermediate carries it)
    for e, pts in SING:
        if len(pts) > 1 or any(st != "x" for st, *_ in pts):
            continue
        text = HEADER + f"dx_dt = -({e})\ndy_dt = x - y\n"
        out.append({"family": "SINGDERIV", "id": "deriv:" + e, "text": text,
                    "opts": {"points": [(st, pt, f"-({lim})") for st, pt, lim in pts], "expr": e, "target": ["rhs", "x"]}})
    out.append({"family": "SING", "id": "multi-component:k*x/(exp(x) - 1)", "text": MULTI, "opts": {"points": [("x", "0", "k")], "expr": "k*x/(exp(x) - 1)"}})
    out.append({"family": "SING", "id": "multi-component-own-state:k*sin(y)/y", "text": MULTI2, "opts": {"points": [("y", "0", "k")], "expr": "k*sin(y)/y"}})
    clamp = "parameters(F=2.0, R=4.0, T=0.5, V=1.0)\nstates(m=0.1)\nvfrt = V*F/(R*T)\ng = vfrt/(exp(vfrt) - 1)\ns = g\ndm_dt = s - m\n"
    full = "parameters(F=2.0, R=4.0, T=0.5)\nstates(V=1.0, m=0.1)\nvfrt = V*F/(R*T)\ng = vfrt/(exp(vfrt) - 1)\ns = g\ndV_dt = -2*s\ndm_dt = s - m\n"
    out.append({"family": "SING", "id": "history:clamp-then-full", "text": full, "opts": {"points": [("V", "0", "1", "Not(Eq(R*T, 0))")], "expr": "vfrt/(exp(vfrt) - 1)", "preload": clamp}})
    if tier != "quick":
        for p in families.corpus(["lorentz.ode", "fitzhughnagumo.ode"]):
            out.append(dict(p, opts={"points": [], "expr": None}))
    return out + witness_tasks(PROP)


def work(task):
    prog = Prog(PROP, task, timeout_ms=20000)
    m, ode = checks.load_all(prog, task["text"])
    if ode is None:
        return prog.result()
    if task["opts"].get("preload"):
        try:   # an earlier model in the same process with the same intermediate but no state dependence
            checks.pipeline.load(task["opts"]["preload"]).remove_singularities()
        except Exception as e:
            prog.skip("preload", str(e))
    try:
        ode2 = ode.remove_singularities()
    except Exception as e:
        prog.fact("remove_singularities", False, "Raised", f"remove_singularities raised {type(e).__name__}: {e}"[:300])
        return prog.result()
    v0 = checks.make_view(prog, ode, "numpy", label="numpy|orig")
    v1 = checks.make_view(prog, ode2, "numpy", label="numpy|removed")
    if v0 is None or v1 is None:
        return prog.result()
    pts = task["opts"].get("points", [])
    c = prog.ctx
    if not pts and task["opts"].get("expr") and "exp(x) - 1" not in task["opts"]["expr"]:
        prog.fact("untouched", v0.code == v1.code, "Touched", "a model without removable singularities was modified")
    dom = checks.model_domain(prog, m)
    for fn, kind in (("rhs", "state"), ("monitor_values", "monitor")):
        r0 = checks.sym_function(prog, v0, fn, label=f"numpy|{fn}|orig|exec")
        r1 = checks.sym_function(prog, v1, fn, label=f"numpy|{fn}|removed|exec")
        if r0 is None or r1 is None:
            continue
        i0, i1 = v0.index_map(kind), v1.index_map(kind)
        prog.fact(f"{fn}|layout", i0 == i1, "LayoutChanged", f"{kind} layout changed: {i0} vs {i1}")
        for name, a in i0.items():
            b = i1.get(name)
            if b is None or a not in r0[0] or b not in r1[0]:
                continue
            label = f"numpy|{fn}|{name}"
            ge = (lambda inputs, b=b, fn=fn: v1.concrete(fn, inputs)[b])
            re_ = (lambda inputs, a=a, fn=fn: v0.concrete(fn, inputs)[a])
            # (1) equal wherever the original is defined
            prog.eq(label + "|regular", dom, r1[0][b], r0[0][a], gen_eval=ge, ref_eval=re_,
                    what=f"{fn}[{name}] after remove_singularities vs original, on the original's domain")
        # (2) on each singular point: the stated limit
        tfn, tname = task["opts"].get("target", ["monitor_values", "s"])
        if fn == tfn and tname in i1 and pts:
            b = i1[tname]
            for pt in pts:
                st, point, lim = pt[0], pt[1], pt[2]
                pv = c.real(Evaluator(c, m).ev(parse_expr(point)))
                lim_ast = parse_expr(lim)
                ev = Evaluator(c, m)
                try:
                    lt = ev.ev(lim_ast)
                except RefError as e:
                    prog.skip(f"limit|{st}={point}", str(e))
                    continue
                label = f"numpy|{tfn}|{tname}|at-{st}={point}"
                ge = (lambda inputs, b=b, tfn=tfn: v1.concrete(tfn, inputs)[b])
                re_ = checks.ref_eval_factory(m, lim_ast)
                assume = []
                if len(pt) > 3:   # definedness of the parts of the expression that are not singular there
                    assume = [c.boolean(Evaluator(c, m).ev(parse_expr(pt[3])))]
                prog.eq(label, ev.dom + assume + [c.inp(f"s_{st}") == pv], r1[0][b], lt, gen_eval=ge, ref_eval=re_,
                        what=f"value on the removable singularity {st}={point} vs the limit {lim}")
    prog.nontrivial = bool(pts)
    return prog.result()


def bounds(tier):
    return {"expressions": len(SING), "singularities_per_expression": "0..3 in 1-2 states", "inputs": "all reals (other inputs free at singular points)"}
