"""C08 - ill-formed models are rejected, never silently repaired."""
from __future__ import annotations

import z3

from .. import checks, pipeline, refsem, smt
from ..core import Prog, witness_tasks, text_id
from ..refsem import Evaluator, RefError
from ..views import PyView

PROP = "C08"
LEVEL = "fault_enumeration"
RULE = ("well-formed base models x single well-formedness fault x site: duplicate definition (same / different right-hand side, same / "
        "different dependency set, same / different component, intermediates, derivatives, states, parameters), kind clashes, missing "
        "and orphan derivative, undefined symbol, 1-/2-/3-cycles; each text goes through the real loader and both generators; "
        "the solver decides whether two definitions differ and, when code is returned, which definition it implements; "
        "non-trivial = a genuinely ill-formed text (the two definitions differ as functions)")
FUNCTIONS = ["gotranx.load.ode_from_string", "TreeToODE.ode (atoms collected in sets)", "ode.gather_atoms / make_ode / ODE.__init__ duplicate check",
             "check_components / find_state", "build_expression (MissingSymbolError)", "sort_assignments (CycleError)", "gotran2py/gotran2c.get_code"]
ASSUME = ["the fault axis is enumerated, not solved (stated plainly in DESIGN 4/C08); z3 decides 'the two definitions differ for some input' "
          "(so identical redefinitions are not counted) and 'the emitted code implements definition k' (the silently-kept-one witness)",
          "acceptable outcomes: any exception from load or from either generator"]

BASES = [
    ("L", "parameters(sigma=12.0, rho=21.0, beta=2.4)\nstates(x=1.0, y=2.0, z=3.05)\n"
          "dx_dt = sigma*(y - x)\na = rho - z\ndy_dt = x*a - y\ndz_dt = x*y - beta*z\n",
     {"inter": "a", "inter_rhs": "rho - z", "state": "x", "param": "rho", "deriv": "dy_dt", "deriv_rhs": "x*a - y"}),
    ("C", 'parameters("A", a=0.5)\nparameters("B", b=2.0)\nstates("A", x=1.0)\nstates("B", y=2.0)\n'
          'expressions("A")\nia = a*x + y\ndx_dt = -ia\nexpressions("B")\nib = b*y - ia\ndy_dt = ib/b\n',
     {"inter": "ia", "inter_rhs": "a*x + y", "state": "y", "param": "b", "deriv": "dx_dt", "deriv_rhs": "-ia", "comp_of_inter": "A", "other_comp": "B"}),
    ("D", "x = 1\ny = 2*x\nparameters(p=1.0)\nstates(s=1.0)\nds_dt = -y*s*p\n",
     {"inter": "x", "inter_rhs": "1", "state": "s", "param": "p", "deriv": "ds_dt", "deriv_rhs": "-y*s*p"}),
]


def faults(tag, base, info):
    out = []
    I, R = info["inter"], info["inter_rhs"]
    S, P, D, DR = info["state"], info["param"], info["deriv"], info["deriv_rhs"]

    def add(kind, text, **meta):
        out.append({"family": "FAULT", "id": text_id(text), "text": text, "opts": dict(meta, fault=kind, base=tag)})

    # duplicate intermediate, different rhs: same dependency set / different dependency set / constant
    variants = {"same-deps": f"({R})*2", "fewer-deps": "3", "more-deps": f"({R}) + {S} + {P}"}
    for vk, rhs2 in variants.items():
        add(f"dup-intermediate/{vk}/after", base + f"{I} = {rhs2}\n", name=I, def1=R, def2=rhs2)
        add(f"dup-intermediate/{vk}/before", f"{I} = {rhs2}\n" + base if tag == "D" else base.replace(f"{I} = {R}\n", f"{I} = {rhs2}\n{I} = {R}\n"),
            name=I, def1=rhs2, def2=R)
    # the second definition only EXTENDS the first (same leading operands, no new names) or spells a number differently
    ext = {"appended-divisor": f"{R}/3.0", "appended-term": f"{R} + 0.5", "appended-factor": f"({R})*({R})", "prefix-call": f"exp({R})",
           "negated": f"-({R})", "number-respelled-and-changed": f"{R} + 5e-1"}
    for vk, rhs2 in ext.items():
        add(f"dup-intermediate/{vk}/after", base + f"{I} = {rhs2}\n", name=I, def1=R, def2=rhs2)
        if tag != "D":
            add(f"dup-intermediate/{vk}/before", base.replace(f"{I} = {R}\n", f"{I} = {rhs2}\n{I} = {R}\n"), name=I, def1=rhs2, def2=R)
    add("dup-derivative/appended-divisor", base + f"{D} = ({DR})/3.0\n", name=D, def1=DR, def2=f"({DR})/3.0")
    add("dup-intermediate/identical", base + f"{I} = {R}\n", name=I, def1=R, def2=R)
    if "other_comp" in info:
        add("dup-intermediate/other-component", base + f'expressions("{info["other_comp"]}")\n{I} = ({R})*2\n', name=I, def1=R, def2=f"({R})*2")
    # duplicate derivative
    add("dup-derivative/same-deps", base + f"{D} = ({DR})*2\n", name=D, def1=DR, def2=f"({DR})*2")
    add("dup-derivative/constant", base + f"{D} = 0\n", name=D, def1=DR, def2="0")
    # duplicate state / parameter
    add("dup-state/different-value", base + f"states({S}=99.0)\n", name=S)
    add("dup-state/same-value", base + f"states({S}=1.0)\n" if tag != "C" else base + f'states("B", {S}=2.0)\n', name=S, identical=True)
    add("dup-parameter/different-value", base + f"parameters({P}=99.0)\n", name=P)
    # kind clashes
    add("clash/state-as-parameter/different-value", base + f"parameters({S}=5.5)\n", name=S)
    add("clash/state-as-parameter/same-value", base + f"parameters({S}={'1.0' if tag != 'C' else '2.0'})\n", name=S)
    add("clash/parameter-as-intermediate", base + f"{P} = 7.0\n", name=P)
    add("clash/state-as-intermediate", base + f"{S} = 7.0\n", name=S)
    add("clash/intermediate-as-parameter", base + f"parameters({I}=7.0)\n", name=I)
    add("clash/intermediate-as-state", base + f"states({I}=7.0)\nd{I}_dt = 0\n", name=I)
    # missing / orphan derivative
    add("missing-derivative", base.replace(f"{D} = {DR}\n", ""), name=D)
    add("orphan-derivative", base + "dqq_dt = 1\n", name="dqq_dt")
    add("extra-state-without-derivative", base + "states(lonely=1.0)\n", name="lonely")
    add("orphan-derivative/stateless-component", base + 'expressions("Stateless")\ndqq_dt = 1\n', name="dqq_dt")
    add("orphan-derivative/stateless-component-with-parameter", base + 'parameters("Stateless2", pp=1.0)\nexpressions("Stateless2")\ndqq_dt = pp\n', name="dqq_dt")
    # history: a well-formed text with a function call is loaded first, then the same call with its symbol undefined
    good = base + f"parameters(vh_=1.5)\nhist1 = exp((vh_ - {S})/2) + Conditional(Gt(vh_, {S}), 1, 2)\n"
    bad = base + f"hist1 = exp((vh_ - {S})/2) + Conditional(Gt(vh_, {S}), 1, 2)\n"
    add("undefined-symbol/inside-call-after-good-load", bad, name="vh_", preload=good)
    # undefined symbol
    add("undefined-symbol/intermediate", base + f"und1 = {S}*nowhere\n", name="nowhere")
    add("undefined-symbol/derivative", base.replace(f"{D} = {DR}\n", f"{D} = {DR} + nowhere\n"), name="nowhere")
    # undefined symbol inside the VALUE of a declaration (parameters / states / ScalarParam)
    add("undefined-symbol/parameter-value", base + "parameters(pv1=0.5*nowhere)\n" + f"und2 = pv1*{S}\n", name="nowhere")
    add("undefined-symbol/state-value", base + "states(sv1=nowhere)\ndsv1_dt = -sv1\n", name="nowhere")
    add("undefined-symbol/scalarparam-value", base + 'parameters(pv2=ScalarParam(nowhere/2, unit="mV"))\n' + f"und3 = pv2 + {S}\n", name="nowhere")
    # missing derivative of a state whose component holds no assignment at all
    add("missing-derivative/component-without-assignments", base + 'states("Lonely", lone=0.1)\n', name="dlone_dt")
    add("missing-derivative/two-states-one-derivative", base + "states(m1=0.1, m2=0.2)\ndm1_dt = -m1\n", name="dm2_dt")
    # as many derivative LINES as states, but one state has none: another state's derivative is written twice (identically,
    # with and without a trailing unit / comment)
    add("missing-derivative/other-derivative-repeated-with-comment",
        base.replace(f"{D} = {DR}\n", f"{D} = {DR} # mV/ms\n{D} = {DR}\n") + "states(nn=0.3)\n", name="dnn_dt")
    add("missing-derivative/other-derivative-repeated",
        base.replace(f"{D} = {DR}\n", f"{D} = {DR}\n{D} = {DR}\n") + "states(nn=0.3)\n", name="dnn_dt")
    # cycles
    add("cycle/1", base + "c1 = c1 + 1\n", name="c1")
    add("cycle/2", base + f"c1 = c2 + {S}\nc2 = c1*2\n", name="c1")
    add("cycle/3", base + "c1 = c2 + 1\nc2 = c3*2\nc3 = c1 - 1\n", name="c1")
    add("cycle/through-derivative", base.replace(f"{D} = {DR}\n", f"{D} = {DR} + cz\n") + f"cz = {D}*2\n", name="cz")
    return out


def tasks(tier, seed):
    out = []
    for tag, base, info in BASES:
        out += faults(tag, base, info)
    out.append({"family": "FAULT", "id": "docs-example", "text": "x = 1\ny = 2 * x\nx = 3\n",
                "opts": {"fault": "dup-intermediate/docs-example", "base": "docs", "name": "x", "def1": "1", "def2": "3"}})
    return out + witness_tasks(PROP)


def differ(prog, text_base, d1, d2):
    """Solver: do the two right-hand sides differ for some input?"""
    if d1 is None or d2 is None:
        return True
    try:
        c = prog.ctx
        ev = Evaluator(c, None, missing=lambda n: c.inp(f"v_{n}"))
        t1 = c.real(ev.ev(refsem.parse_expr(d1)))
        t2 = c.real(ev.ev(refsem.parse_expr(d2)))
        v, _, _ = smt.check(c, ev.dom, t1 != t2, timeout_ms=5000, stats=prog.stats, want_model=False)
        return v != "unsat"
    except Exception:
        return True


def work(task):
    prog = Prog(PROP, task, timeout_ms=10000)
    o = task["opts"]
    text = task["text"]
    fault = o["fault"]
    genuinely_ill = True
    if fault.startswith("dup-") and o.get("def1") is not None:
        genuinely_ill = differ(prog, text, o.get("def1"), o.get("def2"))
    if o.get("identical"):
        genuinely_ill = False
    prog.nontrivial = genuinely_ill
    stage = None
    ode = None
    if o.get("preload"):
        try:
            pipeline.gen_py(pipeline.load(o["preload"]))   # earlier history in the same process
        except Exception as e:
            prog.skip("preload", f"well-formed preload text rejected: {e}")
    try:
        ode = pipeline.load(text)
    except Exception as e:
        stage = f"load: {type(e).__name__}"
    codes = {}
    if ode is not None:
        for backend, gen in (("numpy", pipeline.gen_py), ("c", pipeline.gen_c)):
            try:
                codes[backend] = gen(ode, schemes=["explicit_euler"])
            except Exception as e:
                stage = f"{backend} generation: {type(e).__name__}"
                codes = {}
                break
    label = fault
    if not genuinely_ill:
        # identical redefinition: accepted or rejected are both fine; if accepted the code must still be right
        prog.fact(label + "|identical-redefinition", True, "", "")
        prog.notes.append({"fault": fault, "outcome": stage or "accepted (identical definitions)"})
        return prog.result()
    if stage is not None:
        prog.fact(label + "|rejected", True, "", "")
        prog.notes.append({"fault": fault, "outcome": stage})
        if len(prog.samples) < 2:
            prog.samples.append({"fault": fault, "text": text[-200:], "outcome": stage})
        return prog.result()
    # accepted: work out what the code silently did
    detail = f"ill-formed text ({fault}, name {o.get('name')}) was accepted and code was generated by both backends"
    kept = None
    if o.get("def1") is not None and fault.startswith("dup-"):
        try:
            view = PyView(codes["numpy"], "numpy")
            c = prog.ctx
            out, n, _ = view.sym_scalar(c, "monitor_values")
            name = o["name"]
            idx = view.index_map("monitor").get(name)
            base_model = refsem.parse_model(text)  # later definition wins in the reference parser; build both variants
            for k, d in ((1, o["def1"]), (2, o["def2"])):
                mk = refsem.parse_model(text)
                mk.assigns[name] = refsem.parse_expr(d)
                ev = Evaluator(c, mk)
                ref = c.real(ev.ev(mk.assigns[name]))
                v, _, _ = smt.check(c, ev.dom, out[idx] != ref, timeout_ms=5000, stats=prog.stats, want_model=False)
                if v == "unsat":
                    kept = k
            if kept:
                detail += f"; the emitted code provably implements definition #{kept} ({o['def' + str(kept)]!r}) and silently drops the other"
        except Exception as e:
            detail += f" (could not decide which definition was kept: {type(e).__name__})"
    prog.fact(label + "|rejected", False, "AcceptedIllFormed", detail, {"text": text})
    return prog.result()


def bounds(tier):
    return {"bases": len(BASES), "faults_per_base": "about 33 (duplicate/clash/missing/orphan/undefined/cycle at the listed sites)",
            "outcomes": "exception at load or at numpy/C generation = rejected"}
