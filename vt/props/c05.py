"""C05 - explicit Euler step equals states + dt*rhs (all backends, all aliases)."""
from __future__ import annotations

from .. import families, checks, pipeline, pysym
from ..core import Prog, witness_tasks
from ..views import PyView

PROP = "C05"
LEVEL = "translation_validation"
RULE = ("value-program families x backends {numpy, jax, c}; a program is non-trivial when a slot obligation needed "
        "a real solver query; aliases {explicit_euler, euler, forward_euler, forward_explicit_euler} are generated "
        "through the real get_scheme + CodeGenerator.scheme")
FUNCTIONS = ["gotranx.schemes.explicit_euler / get_scheme", "CodeGenerator.scheme", "emitted explicit_euler + rhs (numpy, jax, C via LLVM IR)"]
ASSUME = [
    "relational: the emitted scheme is compared with the emitted rhs of the same module for all real inputs incl. dt",
    "no-input-mutation is decided on the emitted code: any store into states/parameters (Python) or through a non-values pointer (IR) is a violation",
    "caller-side aliasing of input and output buffers is outside the claim",
]
ALIASES = ["explicit_euler", "euler", "forward_euler", "forward_explicit_euler"]
BACKENDS = ["numpy", "jax", "c"]


def tasks(tier, seed):
    P = families.value_programs(tier, seed)
    if tier == "quick":
        P = families.select(P, 60, seed) + families.corpus(["lorentz.ode", "beeler_reuter_1977.ode"])
    else:
        P = families.select(P, 600, seed) + families.corpus()
    from .. import gen
    P += gen.programs(tier, seed, 100, 1500, "std")
    out = []
    for i, p in enumerate(P):
        one = tier == "quick" and p["family"] not in ("WIDE", "NOPARAM", "LAYOUT")   # one-of-a-kind programs: every backend
        out.append(dict(p, opts={"backend": BACKENDS[i % 3] if one else None}))
    # the remove-unused option and the argument-order option must not change what Euler computes
    from . import c12, c04
    for i, t in enumerate(c12.UNUSED + c04.EXTRA):
        out.append({"family": "OPTS", "id": families.text_id(t), "text": t, "opts": {"backend": None, "remove_unused": True, "orders": i < 4}})
    # a model quantity called like the step argument: either generation refuses the model or the emitted Euler step still is
    # states + dt*rhs with dt the ARGUMENT (dt = 0 returns the input)
    for role, t in (("intermediate", "parameters(tau=4.0)\nstates(x=1.0, y=2.0)\ndt = 1/tau\ndx_dt = -x*dt + y\ndy_dt = x - y\n"),
                    ("parameter", "parameters(dt=0.25)\nstates(x=1.0, y=2.0)\ndx_dt = -x*dt + y\ndy_dt = x - y\n"),
                    ("state", "parameters(a=0.25)\nstates(x=1.0, dt=2.0)\ndx_dt = -x*a + dt\nddt_dt = x - dt\n")):
        out.append({"family": "RESERVED", "id": f"dt:{role}", "text": t, "opts": {"backend": None, "may_refuse": True}})
    return out + witness_tasks(PROP)


def work(task):
    prog = Prog(PROP, task, timeout_ms=10000)
    m, ode = checks.load_all(prog, task["text"])
    if ode is None:
        return prog.result()
    if task.get("opts", {}).get("may_refuse"):
        from .. import pipeline
        try:
            pipeline.gen_py(ode, schemes=["explicit_euler"])
        except Exception as e:
            prog.fact("refused", True, "", "")
            prog.notes.append(f"generation refused the model: {type(e).__name__}")
            return prog.result()
    b = task.get("opts", {}).get("backend")
    ru = task.get("opts", {}).get("remove_unused", False)
    for backend in ([b] if b else BACKENDS):
        # both accepted names requested in one call: each must be emitted under its own name
        view = checks.make_view(prog, ode, backend, schemes=["explicit_euler", "forward_explicit_euler"])
        if view is None:
            continue
        checks.check_euler(prog, view, m)
        if view.has("forward_explicit_euler"):
            checks.check_euler(prog, view, m, fn="forward_explicit_euler", tag="|alias")
        else:
            prog.fact(f"{backend}|alias|exists", False, "MissingFunction", "forward_explicit_euler requested but not emitted")
        if backend == "c":
            view.close()
        if ru:
            vr = checks.make_view(prog, ode, backend, label=f"{backend}|get_code|remove_unused", schemes=["explicit_euler"], remove_unused=True)
            if vr is not None:
                # against the reference (not only against its own rhs): slot of state X holds x + dt*f_X
                checks.check_named_slots(prog, vr, m, "rhs", "state", [n for n in m.assigns if m.derivative_of(n)], "rhs", tag="|ru")
                checks.check_euler(prog, vr, m, fn="explicit_euler", tag="|ru")
                if backend == "c":
                    vr.close()
        if task.get("opts", {}).get("orders"):
            from .c04 import check_orders
            check_orders(prog, ode, m, backend, "quick")
    # aliases (numpy): same body under every accepted name
    from gotranx.codegen.python import PythonCodeGenerator, Format
    from gotranx.schemes import get_scheme

    bodies = {}
    for alias in ALIASES:
        def gen(alias=alias):
            cg = PythonCodeGenerator(ode, format=Format.none)
            return cg.scheme(get_scheme(alias))
        code = checks.generate(prog, f"numpy|alias|{alias}", gen)
        if code is None:
            continue
        try:
            mod = pysym.ModuleInfo(code)
        except SyntaxError as e:
            prog.fact(f"numpy|alias|{alias}|parse", False, "SyntaxError", str(e))
            continue
        prog.fact(f"numpy|alias|{alias}|name", list(mod.funcs) == [alias], "AliasName",
                  f"get_scheme({alias!r}) generated function(s) {list(mod.funcs)}")
        if mod.funcs:
            import ast
            f = list(mod.funcs.values())[0]
            bodies[alias] = ast.dump(ast.Module(body=f.body, type_ignores=[])) + repr([a.arg for a in f.args.args])
    if bodies:
        ref = bodies.get("explicit_euler")
        for alias, bd in bodies.items():
            if bd == ref:
                prog.fact(f"numpy|alias|{alias}|body", True, "AliasBody", "")
                continue
            # The text differs.  That alone is no violation of C05 (sympy prints the operands of And / Or in an order that
            # can change between two generations); what the property demands is that the function under this name is the
            # Euler step, which the solver decides on the module generated for this name.
            va = checks.make_view(prog, ode, "numpy", label=f"numpy|alias|{alias}|get_code", schemes=[alias])
            if va is None:
                continue
            if not va.has(alias):
                prog.fact(f"numpy|alias|{alias}|body", False, "AliasBody", f"module generated for scheme {alias!r} has no function {alias}")
                continue
            checks.check_euler(prog, va, m, fn=alias, tag="|alias-body")
    prog.nontrivial = prog.stats.solver_s > 0
    return prog.result()


def bounds(tier):
    return {"programs": "subset of the C01 universe (%s)" % ("60 + 2 corpus, one backend each" if tier == "quick" else "600 + corpus, all backends"),
            "inputs": "all reals incl. dt (unbounded); dt = 0 as a separate obligation", "aliases": ALIASES}
