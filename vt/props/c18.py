"""C18 - the command line writes what the API generates and honours its options."""
from __future__ import annotations

import os
import subprocess
import sys
import tempfile

from .. import xhair, pipeline
from ..core import Prog, witness_tasks, text_id

PROP = "C18"
LEVEL = "other"
RULE = ("CrossHair executes the real typer command functions ode2py / ode2c / convert / cellml2ode with symbolic bool/float/list "
        "options and index-coded enum / output-name options, gotran2*.main replaced by a recorder and read_config by a symbolic "
        "configuration (presence flags + values), and gotran2py.main / gotran2c.main themselves with load_ode / get_code / write_text "
        "replaced by nondeterministic stubs; process level (python -m gotranx ...) in a scratch directory for a fixed set of option "
        "combinations and for invalid / missing models; non-trivial = condition with a symbolic option space")
FUNCTIONS = ["gotranx.cli.ode2py", "gotranx.cli.ode2c", "gotranx.cli.convert", "gotranx.cli.cellml2ode", "gotranx.cli.gotran2py.main",
             "gotranx.cli.gotran2c.main", "gotranx.cli.utils.read_config (stubbed)", "python -m gotranx (subprocess)"]
ASSUME = ["typer's own argument parsing and the file system are outside the symbolic part; they are exercised only by the process-level runs",
          "stubs: gotran2*.main -> recorder; read_config -> dict built from symbolic presence flags; load_ode / get_code -> return or raise on a symbolic flag; Path.write_text -> recorder",
          "CrossHair 'Confirmed over all paths' within --per_condition_timeout; anything else is inconclusive"]
EXPLANATION = ("Configurations = option combinations. The option pass-through and the write-after-successful-generation logic are decided "
               "by CrossHair over symbolic options; counterexamples are replayed by calling the real function concretely and, where "
               "applicable, by running the real command line.")
TASK_LIMIT = 900

HEAD = '''
import math
import warnings
from pathlib import Path
from typing import List, Optional
from unittest import mock

warnings.simplefilter("ignore")
import gotranx.cli as cli
from gotranx.cli import gotran2py, gotran2c, utils
import importlib, sys
CELLML2ODE = cli.cellml2ode  # the command function (importing the submodule rebinds the attribute)
assert callable(CELLML2ODE)
importlib.import_module("gotranx.cli.cellml2ode")
cellml2ode_mod = sys.modules["gotranx.cli.cellml2ode"]
from gotranx.schemes import Scheme
from gotranx.codegen import PythonFormat, CFormat

SCHEMES = list(Scheme)
PFORMATS = list(PythonFormat)
CFORMATS = list(CFormat)
BACKENDS = list(gotran2py.Backend)
OUTNAMES = [None, "out", "sub/model.txt"]
FNAME = Path("/nonexistent/model.ode")
'''

CONDS = {}

CONDS["ode2py_passes"] = '''
def ode2py_passes(remove_unused: bool, verbose: bool, delta: float, out_i: int, scheme_i: int, fmt_i: int,
                  backend_i: int, stiff: List[str]) -> bool:
    """
    pre: math.isfinite(delta)
    pre: 0 <= out_i < 3 and 0 <= scheme_i < 5 and 0 <= fmt_i < 3 and 0 <= backend_i < 2
    pre: len(stiff) <= 2
    post: _
    """
    rec = {}
    with mock.patch.object(gotran2py, "main", lambda **kw: rec.update(kw)), \\
            mock.patch.object(utils, "read_config", lambda path: {}):
        cli.ode2py(fname=FNAME, outname=OUTNAMES[out_i], remove_unused=remove_unused, version=None, license=None,
                   config=None, verbose=verbose, scheme=[SCHEMES[scheme_i]], stiff_states=stiff, delta=delta,
                   format=PFORMATS[fmt_i], backend=BACKENDS[backend_i])
    want = dict(fname=FNAME, outname=OUTNAMES[out_i], scheme=[SCHEMES[scheme_i]], remove_unused=remove_unused,
                verbose=verbose, stiff_states=stiff, delta=delta, format=PFORMATS[fmt_i], backend=BACKENDS[backend_i])
    return rec == want
'''

CONDS["ode2c_passes"] = '''
def ode2c_passes(remove_unused: bool, verbose: bool, delta: float, out_i: int, scheme_i: int, fmt_i: int,
                 to_i: int, stiff: List[str]) -> bool:
    """
    pre: math.isfinite(delta)
    pre: 0 <= out_i < 3 and 0 <= scheme_i < 5 and 0 <= fmt_i < 2 and 0 <= to_i < 2
    pre: len(stiff) <= 2
    post: _
    """
    rec = {}
    to = [".h", ".c"][to_i]
    with mock.patch.object(gotran2c, "main", lambda **kw: rec.update(kw)), \\
            mock.patch.object(utils, "read_config", lambda path: {}):
        cli.ode2c(fname=FNAME, to=to, outname=OUTNAMES[out_i], remove_unused=remove_unused, version=None, license=None,
                  config=None, verbose=verbose, scheme=[SCHEMES[scheme_i]], stiff_states=stiff, delta=delta,
                  format=CFORMATS[fmt_i])
    want = dict(fname=FNAME, suffix=to, outname=OUTNAMES[out_i], scheme=[SCHEMES[scheme_i]], remove_unused=remove_unused,
                verbose=verbose, stiff_states=stiff, delta=delta, format=CFORMATS[fmt_i])
    return rec == want
'''

CONDS["ode2py_config"] = '''
def ode2py_config(has_verbose: bool, cfg_verbose: bool, has_delta: bool, cfg_delta: float, has_stiff: bool,
                  stiff_empty: bool, has_scheme: bool, scheme_empty: bool, has_format: bool, has_backend: bool,
                  verbose: bool, delta: float) -> bool:
    """
    pre: math.isfinite(delta) and math.isfinite(cfg_delta)
    post: _
    """
    cfg_stiff = [] if stiff_empty else ["cfg_state"]
    cfg_scheme = [] if scheme_empty else [SCHEMES[1].value, SCHEMES[4].value]
    cfg = {}
    py = {}
    if has_verbose:
        cfg["verbose"] = cfg_verbose
    if has_delta:
        cfg["delta"] = cfg_delta
    if has_stiff:
        cfg["stiff_states"] = cfg_stiff
    if has_scheme:
        cfg["scheme"] = cfg_scheme
    if has_format:
        py["format"] = PFORMATS[2].value
    if has_backend:
        py["backend"] = BACKENDS[1].value
    if py:
        cfg["python"] = py
    rec = {}
    with mock.patch.object(gotran2py, "main", lambda **kw: rec.update(kw)), \\
            mock.patch.object(utils, "read_config", lambda path: cfg):
        cli.ode2py(fname=FNAME, outname=None, remove_unused=False, version=None, license=None, config=None,
                   verbose=verbose, scheme=[SCHEMES[0]], stiff_states=["cli_state"], delta=delta,
                   format=PFORMATS[0], backend=BACKENDS[0])
    want = dict(fname=FNAME, outname=None, remove_unused=False,
                verbose=cfg_verbose if has_verbose else verbose,
                delta=cfg_delta if has_delta else delta,
                stiff_states=cfg_stiff if has_stiff else ["cli_state"],
                scheme=[Scheme(x) for x in cfg_scheme] if has_scheme else [SCHEMES[0]],
                format=PFORMATS[2] if has_format else PFORMATS[0],
                backend=BACKENDS[1] if has_backend else BACKENDS[0])
    return rec == want
'''

CONDS["ode2c_config"] = '''
def ode2c_config(has_verbose: bool, cfg_verbose: bool, has_delta: bool, cfg_delta: float, has_to: bool, cfg_to_i: int,
                 has_format: bool, cfg_fmt_i: int, verbose: bool, delta: float, to_i: int, fmt_i: int) -> bool:
    """
    pre: math.isfinite(delta) and math.isfinite(cfg_delta)
    pre: 0 <= cfg_to_i < 2 and 0 <= to_i < 2 and 0 <= cfg_fmt_i < 2 and 0 <= fmt_i < 2
    post: _
    """
    cfg = {}
    cc = {}
    TOS = [".h", ".c"]
    if has_verbose:
        cfg["verbose"] = cfg_verbose
    if has_delta:
        cfg["delta"] = cfg_delta
    if has_to:
        cc["to"] = TOS[cfg_to_i]
    if has_format:
        cc["format"] = CFORMATS[cfg_fmt_i].value
    if cc:
        cfg["c"] = cc
    rec = {}
    with mock.patch.object(gotran2c, "main", lambda **kw: rec.update(kw)), \\
            mock.patch.object(utils, "read_config", lambda path: cfg):
        cli.ode2c(fname=FNAME, to=TOS[to_i], outname=None, remove_unused=True, version=None, license=None, config=None,
                  verbose=verbose, scheme=[], stiff_states=[], delta=delta, format=CFORMATS[fmt_i])
    want = dict(fname=FNAME, outname=None, remove_unused=True, scheme=[], stiff_states=[],
                verbose=cfg_verbose if has_verbose else verbose,
                delta=cfg_delta if has_delta else delta,
                suffix=TOS[cfg_to_i] if has_to else TOS[to_i],
                format=CFORMATS[cfg_fmt_i] if has_format else CFORMATS[fmt_i])
    return rec == want
'''

CONDS["convert_passes"] = '''
def convert_passes(remove_unused: bool, verbose: bool, jax: bool, delta: float, to_i: int, scheme_i: int, stiff: List[str]) -> bool:
    """
    pre: math.isfinite(delta)
    pre: 0 <= to_i < 3 and 0 <= scheme_i < 5 and len(stiff) <= 2
    post: _
    """
    to = [".py", ".c", ".h"][to_i]
    rec_py, rec_c = {}, {}
    with mock.patch.object(gotran2py, "main", lambda **kw: rec_py.update(kw)), \\
            mock.patch.object(gotran2c, "main", lambda **kw: rec_c.update(kw)):
        cli.convert(fname=FNAME, to=to, outname="out", remove_unused=remove_unused, jax=jax, version=None, license=None,
                    verbose=verbose, scheme=[SCHEMES[scheme_i]], stiff_states=stiff, delta=delta)
    common = dict(fname=FNAME, suffix=to, outname="out", scheme=[SCHEMES[scheme_i]], remove_unused=remove_unused,
                  verbose=verbose, stiff_states=stiff, delta=delta)
    if to == ".py":
        want = dict(common, backend=BACKENDS[1] if jax else BACKENDS[0])
        return rec_py == want and rec_c == {}
    return rec_c == common and rec_py == {}
'''

CONDS["cellml2ode_passes"] = '''
def cellml2ode_passes(verbose: bool, has_cfg: bool, cfg_verbose: bool, out_i: int) -> bool:
    """
    pre: 0 <= out_i < 3
    post: _
    """
    rec = {}
    cfg = {"verbose": cfg_verbose} if has_cfg else {}
    with mock.patch.object(cellml2ode_mod, "main", lambda **kw: rec.update(kw)), \\
            mock.patch.object(utils, "read_config", lambda path: cfg):
        CELLML2ODE(fname=FNAME, outname=OUTNAMES[out_i], version=None, license=None, config=None, verbose=verbose)
    return rec == dict(fname=FNAME, outname=OUTNAMES[out_i], verbose=cfg_verbose if has_cfg else verbose)
'''

CONDS["py_main_writes"] = '''
def py_main_writes(load_fails: bool, gen_fails: bool, code: str, out_i: int, suffix_i: int) -> bool:
    """
    pre: 0 <= out_i < 3 and 0 <= suffix_i < 2 and len(code) <= 3
    post: _
    """
    written = []
    opened = []
    suffix = [".py", ".txt"][suffix_i]

    def load(p):
        if load_fails:
            raise RuntimeError("load")
        return "ODE"

    def gen(ode, **kw):
        if gen_fails:
            raise RuntimeError("gen")
        return code

    def wt(self, text, *a, **k):
        opened.append(str(self))
        written.append((str(self), text))

    class _File:
        def __init__(self, path):
            self.path = path
            self.buf = []

        def write(self, text):
            self.buf.append(text)
            return len(text)

        def close(self):
            written.append((self.path, "".join(self.buf)))

        def __enter__(self):
            return self

        def __exit__(self, *a):
            self.close()
            return False

    def op(self, mode="r", *a, **k):
        opened.append(str(self))
        return _File(str(self))

    raised = False
    with mock.patch.object(gotran2py, "load_ode", load), mock.patch.object(gotran2py, "get_code", gen), \\
            mock.patch.object(Path, "write_text", wt), mock.patch.object(Path, "open", op):
        try:
            gotran2py.main(fname=FNAME, outname=OUTNAMES[out_i], suffix=suffix, verbose=False)
        except RuntimeError:
            raised = True
    base = FNAME if OUTNAMES[out_i] is None else Path(OUTNAMES[out_i])
    if load_fails or gen_fails:
        # nothing may be written, and the output file may not even be created / truncated
        return raised and written == [] and opened == []
    return (not raised) and written == [(str(base.with_suffix(suffix)), code)]
'''

CONDS["c_main_writes"] = '''
def c_main_writes(load_fails: bool, gen_fails: bool, code: str, out_i: int, suffix_i: int) -> bool:
    """
    pre: 0 <= out_i < 3 and 0 <= suffix_i < 2 and len(code) <= 3
    post: _
    """
    written = []
    opened = []
    suffix = [".h", ".c"][suffix_i]

    def load(p):
        if load_fails:
            raise RuntimeError("load")
        return "ODE"

    def gen(ode, **kw):
        if gen_fails:
            raise RuntimeError("gen")
        return code

    def wt(self, text, *a, **k):
        opened.append(str(self))
        written.append((str(self), text))

    class _File:
        def __init__(self, path):
            self.path = path
            self.buf = []

        def write(self, text):
            self.buf.append(text)
            return len(text)

        def close(self):
            written.append((self.path, "".join(self.buf)))

        def __enter__(self):
            return self

        def __exit__(self, *a):
            self.close()
            return False

    def op(self, mode="r", *a, **k):
        opened.append(str(self))
        return _File(str(self))

    raised = False
    with mock.patch.object(gotran2c, "load_ode", load), mock.patch.object(gotran2c, "get_code", gen), \\
            mock.patch.object(Path, "write_text", wt), mock.patch.object(Path, "open", op):
        try:
            gotran2c.main(fname=FNAME, outname=OUTNAMES[out_i], suffix=suffix, verbose=False)
        except RuntimeError:
            raised = True
    base = FNAME if OUTNAMES[out_i] is None else Path(OUTNAMES[out_i])
    if load_fails or gen_fails:
        # nothing may be written, and the output file may not even be created / truncated
        return raised and written == [] and opened == []
    return (not raised) and written == [(str(base.with_suffix(suffix)), code)]
'''

CONDS["main_forwards"] = '''
def main_forwards(remove_unused: bool, delta: float, scheme_i: int, fmt_i: int, backend_i: int, stiff: List[str]) -> bool:
    """
    pre: math.isfinite(delta) and 0 <= scheme_i < 5 and 0 <= fmt_i < 3 and 0 <= backend_i < 2 and len(stiff) <= 2
    post: _
    """
    rec = {}

    def gen(ode, **kw):
        rec.update(kw)
        return "x"

    with mock.patch.object(gotran2py, "load_ode", lambda p: "ODE"), mock.patch.object(gotran2py, "get_code", gen), \\
            mock.patch.object(Path, "write_text", lambda self, text, *a, **k: None):
        gotran2py.main(fname=FNAME, outname="o", format=PFORMATS[fmt_i], scheme=[SCHEMES[scheme_i]],
                       remove_unused=remove_unused, verbose=False, stiff_states=stiff, delta=delta,
                       backend=BACKENDS[backend_i])
    return rec == dict(scheme=[SCHEMES[scheme_i]], format=PFORMATS[fmt_i], remove_unused=remove_unused,
                       stiff_states=stiff, delta=delta, backend=BACKENDS[backend_i])
'''

TWIN = '''

def twin_{name}(flag: bool) -> bool:
    """
    post: _
    """
    # reachability twin: the harness module imports, the stubs work, and a false postcondition is reported
    return flag
'''

MODEL = ("parameters(sigma=12.0, rho=21.0, beta=2.4)\nstates(x=1.0, y=2.0, z=3.05)\n"
         "dx_dt = sigma * (y - x)\na = rho - z\ndy_dt = x * a - y\ndz_dt = x * y - beta * z\n")
BAD_MODELS = {
    "cycle-fails-in-generation": "parameters(k=1.0)\nstates(x=1.0)\na = b + 1\nb = a + x\ndx_dt = -k*x + a\n",
    "syntax": "parameters(sigma=12.0\nstates(x=1.0)\ndx_dt = sigma *\n",
    "undefined-symbol": "states(x=1.0)\ndx_dt = -k*x\n",
    "missing-derivative": "states(x=1.0, y=2.0)\ndx_dt = -x\n",
}
CLI_CASES = [
    ("ode2py", ["--format", "none"], "py", {}),
    ("ode2py", ["--format", "none", "--scheme", "explicit_euler", "--scheme", "generalized_rush_larsen", "--delta", "0.001"], "py",
     {"schemes": ["explicit_euler", "generalized_rush_larsen"], "delta": 0.001}),
    ("ode2py", ["--format", "none", "--remove-unused", "--backend", "jax"], "py", {"remove_unused": True, "backend": "jax"}),
    ("ode2py", ["--format", "none", "--scheme", "hybrid_rush_larsen", "-s", "x", "-s", "z"], "py",
     {"schemes": ["hybrid_rush_larsen"], "stiff_states": ["x", "z"]}),
    ("ode2c", ["--format", "none"], "h", {}),
    ("ode2c", ["--format", "none", "--to", ".c", "--scheme", "explicit_euler", "--remove-unused"], "c",
     {"schemes": ["explicit_euler"], "remove_unused": True}),
    # a scheme together with its alias spelling: every requested name must be defined exactly once
    ("ode2py", ["--format", "none", "--scheme", "explicit_euler", "--scheme", "forward_explicit_euler"], "py",
     {"schemes": ["explicit_euler", "forward_explicit_euler"]}),
    ("ode2c", ["--format", "none", "--scheme", "forward_generalized_rush_larsen", "--scheme", "explicit_euler",
               "--scheme", "generalized_rush_larsen"], "h",
     {"schemes": ["forward_generalized_rush_larsen", "explicit_euler", "generalized_rush_larsen"]}),
    # stiff states and delta must reach the hybrid scheme of the written file (decided on the file, see hybrid_check)
    ("ode2py", ["--format", "none", "--scheme", "explicit_euler", "--scheme", "generalized_rush_larsen", "--scheme", "hybrid_rush_larsen",
                "-s", "x", "-s", "z", "--delta", "0.05"], "py",
     {"schemes": ["explicit_euler", "generalized_rush_larsen", "hybrid_rush_larsen"], "stiff_states": ["x", "z"], "delta": 0.05,
      "hybrid_check": "numpy"}),
    ("ode2py", ["--format", "none", "--backend", "jax", "--scheme", "explicit_euler", "--scheme", "generalized_rush_larsen",
                "--scheme", "hybrid_rush_larsen", "--stiff-states", "y", "--delta", "0.5"], "py",
     {"schemes": ["explicit_euler", "generalized_rush_larsen", "hybrid_rush_larsen"], "stiff_states": ["y"], "delta": 0.5,
      "backend": "jax", "hybrid_check": "jax"}),
    ("ode2c", ["--format", "none", "--scheme", "explicit_euler", "--scheme", "generalized_rush_larsen", "--scheme", "hybrid_rush_larsen",
               "-s", "z", "--delta", "0.05"], "h",
     {"schemes": ["explicit_euler", "generalized_rush_larsen", "hybrid_rush_larsen"], "stiff_states": ["z"], "delta": 0.05,
      "hybrid_check": "c"}),
]


def tasks(tier, seed):
    out = []
    for name in CONDS:
        out.append({"family": "XH", "id": name, "text": "", "opts": {"cond": name, "timeout": 120 if tier == "quick" else 600}})
    for i, case in enumerate(CLI_CASES):
        out.append({"family": "CLI", "id": f"cli{i}", "text": MODEL, "opts": {"case": i}})
    for k in BAD_MODELS:
        out.append({"family": "CLIBAD", "id": k, "text": BAD_MODELS[k], "opts": {"bad": k}})
    out.append({"family": "CLIBAD", "id": "missing-file", "text": "", "opts": {"bad": "missing-file"}})
    return out + witness_tasks(PROP)


def run_cli(args, cwd):
    env = dict(os.environ)
    env.pop("PYTHONPATH", None)
    return subprocess.run([sys.executable, "-m", "gotranx"] + args, cwd=cwd, capture_output=True, text=True, timeout=600, env=env)


def work(task):
    prog = Prog(PROP, task)
    o = task["opts"]
    if "cond" in o:
        name = o["cond"]
        src = HEAD + CONDS[name] + TWIN.format(name=name)
        res = xhair.run_crosshair(src, timeout_s=o.get("timeout", 120))
        from .c09 import handle
        handle(prog, res, src, f"cli:{name}", main=name, twin=f"twin_{name}")
        prog.nontrivial = True
        if len(prog.samples) < 2:
            prog.samples.append({"condition": name, "verdicts": [(r["function"], r["verdict"]) for r in res]})
        return prog.result()
    with tempfile.TemporaryDirectory(prefix="vt_c18_") as d:
        if "case" in o:
            cmd, args, suffix, kw = CLI_CASES[o["case"]]
            path = os.path.join(d, "model.ode")
            open(path, "w").write(task["text"])
            p = run_cli([cmd, "model.ode", "-o", "result"] + args, d)
            outp = os.path.join(d, f"result.{suffix}")
            ok = p.returncode == 0 and os.path.exists(outp)
            prog.fact(f"cli|{cmd}|{' '.join(args)}|runs", ok, "CliFailed", f"exit {p.returncode}, output exists={os.path.exists(outp)}: {p.stderr[-300:]}")
            if ok:
                ode = pipeline.load(task["text"], name="model")
                if cmd == "ode2py":
                    want = pipeline.gen_py(ode, backend=kw.get("backend", "numpy"), schemes=kw.get("schemes") or [],
                                           remove_unused=kw.get("remove_unused", False), delta=kw.get("delta", 1e-8),
                                           stiff_states=kw.get("stiff_states") or [])
                else:
                    want = pipeline.gen_c(ode, schemes=kw.get("schemes") or [], remove_unused=kw.get("remove_unused", False),
                                          delta=kw.get("delta", 1e-8), stiff_states=kw.get("stiff_states") or [])
                got = open(outp).read()
                prog.fact(f"cli|{cmd}|{' '.join(args)}|bytes", got == want, "CliBytesDiffer",
                          f"file written by '{cmd} {' '.join(args)}' differs from the API's get_code for the same options")
                import re
                for sch in kw.get("schemes") or []:
                    n = len(re.findall(r"^(?:def|void)\s+%s\s*\(" % re.escape(sch), got, flags=re.M))
                    prog.fact(f"cli|{cmd}|{' '.join(args)}|defines|{sch}", n == 1, "SchemeListNotHonoured",
                              f"'{cmd} {' '.join(args)}': the written file defines the requested scheme {sch} {n} times")
                if kw.get("hybrid_check"):
                    hybrid_check(prog, got, task["text"], kw)
            prog.nontrivial = True
            if len(prog.samples) < 2:
                prog.samples.append({"command": [cmd] + args, "exit": p.returncode})
        else:
            bad = o["bad"]
            for cmd, suffix in (("ode2py", "py"), ("ode2c", "h")):
                if bad != "missing-file":
                    open(os.path.join(d, "model.ode"), "w").write(task["text"])
                outp = os.path.join(d, f"result.{suffix}")
                # an output of an earlier successful run must survive a failing run untouched
                open(outp, "w").write("previous good output\n")
                p = run_cli([cmd, "model.ode", "-o", "result", "--format", "none"], d)
                prog.fact(f"cli|{cmd}|{bad}|nonzero-exit", p.returncode != 0, "ZeroExitOnInvalid", f"{cmd} on an invalid model ({bad}) exits 0")
                kept = os.path.exists(outp) and open(outp).read() == "previous good output\n"
                prog.fact(f"cli|{cmd}|{bad}|no-output", kept, "OutputWrittenOnInvalid",
                          f"{cmd} on an invalid model ({bad}) wrote / truncated {outp}")
            prog.nontrivial = True
    return prog.result()


def hybrid_check(prog, written, text, kw):
    """The file the CLI wrote is executed symbolically: its hybrid scheme must be RL (with the requested delta, i.e. equal
    to the generalized_rush_larsen of the same file) in exactly the requested stiff slots and explicit Euler elsewhere, and its
    generalized_rush_larsen must be the reference RL update with the requested delta."""
    from .. import checks, refsem
    from ..views import PyView, CView
    from . import c07
    m = refsem.parse_model(text)
    b = kw["hybrid_check"]
    try:
        view = CView(written) if b == "c" else PyView(written, b)
    except Exception as e:
        prog.fact(f"cli|written-file|{b}|parse", False, "SyntaxError", f"the written file cannot be analysed: {type(e).__name__}: {str(e)[:200]}")
        return
    try:
        c07.check_hybrid(prog, view, m, set(kw["stiff_states"]), f"cli-file|{b}")
        checks.check_grl(prog, view, m, kw["delta"], tag="|cli-file")
    finally:
        if b == "c":
            view.close()


def bounds(tier):
    return {"crosshair_conditions": list(CONDS), "per_condition_timeout_s": 120 if tier == "quick" else 600,
            "symbolic": "bool/float options, list[str] (<=2) stiff states, index-coded enums/output names, config presence flags; str code <= 3 chars",
            "process_level": "%d option combinations + 4 invalid-model cases x 2 commands" % len(CLI_CASES)}
