"""C11 - saving a model to .ode and loading it back preserves the model."""
from __future__ import annotations

import os
import tempfile

from .. import families, checks, pipeline, refsem
from ..core import Prog, witness_tasks, text_id
from ..refsem import Evaluator, RefError

PROP = "C11"
LEVEL = "translation_validation"
RULE = ("value-program families + save-specific constructs (exp(1), negated comparisons, nested conditionals, rational "
        "exponents, 1e+-25 literals, units/descriptions/components); the real ode.save must return, the real loader must "
        "accept the file, and z3 proves every rhs/monitor/scheme slot of the reloaded model equal BY NAME to the original's for "
        "all real inputs; declared atoms compared through the independent reference parser of both texts; "
        "non-trivial = saved text differs from the original text")
FUNCTIONS = ["gotranx.save.write_ODE_to_ode_file", "GotranODECodePrinter / BaseGotranODECodePrinter", "codegen.base._print_Piecewise (simplify)",
             "gotranx.load.load_ode", "gotran2py.get_code of both models"]
ASSUME = ["relational check between the module emitted for the original and for the reloaded model, slots matched by name",
          "declared defaults compared as canonical rationals (kappa), units/descriptions/component membership as strings"]

SAVE_EXPRS = [
    "exp(1)", "exp(1)*x", "exp(2)", "x**exp(1)", "Conditional(Not(Gt(x, 0)), 1, 2)", "Conditional(Not(Le(x, y)), x, y)",
    "Conditional(Not(Eq(x, 1)), x, y)", "Conditional(Gt(x, 0), Conditional(Gt(y, 0), 1, 2), Conditional(Lt(y, -1), 3, 4))",
    "x**(1/3)", "x**(2/3)", "y**(-1/2)", "x**0.5", "x**1.5", "1e25*x", "1e-25*x", "2.5E+24 + x", "x/1e-20", "3e+25/y",
    "Conditional(And(Gt(x, 0), Lt(y, 2), Ge(z, a)), x, y)", "Conditional(Or(Gt(x, 0), Lt(y, 2)), x, y)",
    "Gt(x, 0)*3 + 1", "ContinuousConditional(Gt(x, a), 1, 2, 0.5)", "Mod(x, 2)", "floor(x/2)", "abs(x - y)",
    "sqrt(x)*sqrt(y)", "log(x)/log(2)", "pi*x", "cos(2*pi*x)", "-x**2", "(-x)**2", "x - (y - (a - b))", "x/(y/(a/b))",
    "Conditional(Ge(t, 1), Conditional(Le(t, 2), -a, 0), 0)", "Conditional(Eq(x, 0), 1, y/x)", "1/4", "2/3*y", "-(1/3)",
    "Conditional(Eq(x, 0), 1, Conditional(Lt(x, 5), exp(x), 7))", "Conditional(Eq(y, 1), 2*a, Conditional(Eq(y, 2), 2*a, a))",
    "Conditional(Lt(x, 0), 0, Conditional(Lt(x, 1), x, Conditional(Lt(x, 2), 1, 2 - x)))", "Conditional(Gt(x, 2), a, Conditional(Gt(x, 1), a, b))",
    "Conditional(Le(x, 0), -x, Conditional(Le(x, 0), 5, x*x))", "Conditional(Eq(x, 1), 1, x/x)",
    "6.02214076e23*x", "8.8541878128e-12 + y", "1.380649e-23*x/1.602176634e-19", "0.000123456789*x", "123456789012345678.0 + x",
    "x/96485.33212", "2.99792458e8*y", "1.23456789e-5*x + 9.87654321e16*y", "x*1.0000000001e20",
    "exp(-(x + 80)/6.8)", "0.057*exp(-(x + 80)/6.8)", "asin(x/2) + acos(y/4) + atan(z)", "tan(x)",
    # a branch that sympy.simplify rewrites with its condition (same value, other derivative in x: Rush-Larsen differs at x == a)
    "Conditional(Eq(x, a), a, y)*x**(1/3)", "Conditional(Eq(0.5 - x, 0.5), t + x, log(y))**2", "Conditional(Eq(x, 2*a), a*a, x*y)",
    # a Conditional as operand of a relational (sympy: ITE), conditions that fold to a constant
    "Conditional(Ge(Conditional(Lt(x, 1), y, a), z), 1/x, y)", "Conditional(Or(Lt(a, 0.1), Ge(Conditional(Lt(x, 1), y, a), z)), x, y)",
    "Conditional(And(Gt(y, 0), Lt(Conditional(Lt(a, x), x, a), x)), 1, 2)", "Conditional(Lt(Conditional(Gt(x, y), y, x), x + 1), x, y)",
]
DECL = ('parameters("A", a=ScalarParam(0.5, unit="mV", description="par a"), big=1e25, small=1e-25, q=exp(1), r=1/4, neg=-0.5, avo=6.02214076e23, eps0=8.8541878128e-12)\n'
        'parameters("B", b=ScalarParam(2.0, unit="per_ms"), cap=ScalarParam(1.0, unit="microF_per_cm2", description="CellML style unit"))\nstates("A", x=ScalarParam(1.0, unit="mM", description="state x"))\nstates("B", y=ScalarParam(2.0, unit="microA_per_microF"), z=1e-3)\n'
        'expressions("A")\nia = a*x + y*q # mV\ndx_dt = -ia*r + big*small + neg\n'
        'expressions("B")\nib = b*y - ia # nA\ndy_dt = ib/b\ndz_dt = -z\n')


IMPORTED = ["function-positions", "small-literals", "conditionals", "operators", "nested-same-names"]


def tasks(tier, seed):
    P = families.pack(SAVE_EXPRS, "SAVE", per=3)
    P.append({"family": "SAVE", "id": text_id(DECL), "text": DECL, "meta": {}})
    V = families.value_programs(tier, seed)
    P += families.select(V, 70 if tier == "quick" else 1500, seed)
    P += families.corpus(["lorentz.ode", "fitzhughnagumo.ode"] if tier == "quick" else None)
    from .. import gen
    P += gen.programs(tier, seed, 150, 1500, "std")
    out = [dict(p, opts={}) for p in P]
    # models imported from Myokit: the imported ODE cannot be generated from before it is saved (its intermediates have no
    # value), so the reference for "save + reload preserves the model" is the Myokit expression tree that was imported
    from . import c15
    names = IMPORTED if tier == "quick" else list(c15.MODELS)
    for name in names:
        out.append({"family": "IMPORT", "id": name, "text": c15.build(name),
                    "opts": {"kind": "mmt-text", "protocol": name in c15.PROTOCOL_MODELS}})
    return out + witness_tasks(PROP)


def decl_info(m: refsem.Model, ctx):
    out = {}
    for kind, d in (("state", m.states), ("parameter", m.params)):
        for n, v in d.items():
            try:
                val = refsem.numeric(v, {}, None)
                val = float(val)
            except Exception:
                val = None
            out[n] = (kind, val, m.meta.get(n, (None, None)), tuple(sorted(m.comp.get(n, ("",)))))
    return out


def work(task):
    if task["family"] == "IMPORT":
        from . import c15
        return c15.work(task, prop=PROP, back=False)
    prog = Prog(PROP, task, timeout_ms=10000 if task["family"] != "CORPUS" else 20000)
    m0, ode0 = checks.load_all(prog, task["text"])
    if ode0 is None:
        return prog.result()
    with tempfile.TemporaryDirectory(prefix="vt_c11_") as d:
        path = os.path.join(d, "saved.ode")
        try:
            ode0.save(path)
            saved = open(path).read()
        except Exception as e:
            prog.fact("save", False, "SaveRaised", f"ode.save raised {type(e).__name__}: {e}"[:300])
            return prog.result()
        prog.fact("save", True, "", "")
        try:
            from gotranx.load import load_ode
            ode1 = load_ode(path)
        except Exception as e:
            prog.fact("reload", False, "ReloadRejected", f"the saved file is rejected by the loader: {type(e).__name__}: "
                      f"{str(e)[:200]} | saved text: {saved[:300]!r}")
            return prog.result()
        prog.fact("reload", True, "", "")
    prog.nontrivial = saved.strip() != task["text"].strip()
    # declared atoms through the independent parser
    try:
        m1 = refsem.parse_model(saved)
    except RefError as e:
        prog.skip("parse-saved", f"reference parser on saved text: {e}")
        return prog.result()
    d0, d1 = decl_info(m0, prog.ctx), decl_info(m1, prog.ctx)
    prog.fact("decl|names", set(d0) == set(d1), "AtomsChanged", f"declared names differ: {sorted(set(d0) ^ set(d1))}")
    # units / descriptions: the LOADED model is the baseline of this property (the loader itself drops quote characters
    # inside a description - "Faraday's" is loaded as "Faradays" - which save + reload then preserve)
    def real_meta(ode):
        return {a.name: ((getattr(a, "unit_str", None) or None), (getattr(a, "description", None) or None))
                for a in list(ode.states) + list(ode.parameters)}
    rm0, rm1 = real_meta(ode0), real_meta(ode1)
    for n in sorted(set(d0) & set(d1)):
        k0, v0, meta0, c0 = d0[n]
        k1, v1, meta1, c1 = d1[n]
        if n in rm0 and n in rm1:
            meta0, meta1 = rm0[n], rm1[n]
        ok = k0 == k1 and c0 == c1 and (meta0[0] or None) == (meta1[0] or None) and (meta0[1] or None) == (meta1[1] or None)
        okv = (v0 is None and v1 is None) or (v0 is not None and v1 is not None and abs(v0 - v1) <= 1e-12 * (1 + abs(v0)))
        prog.fact(f"decl|{n}", ok and okv, "AtomChanged", f"{n}: {d0[n]} saved/reloaded as {d1[n]}")
    a0 = {n: tuple(sorted(m0.comp.get(n, ("",)))) for n in m0.assigns}
    a1 = {n: tuple(sorted(m1.comp.get(n, ("",)))) for n in m1.assigns}
    prog.fact("assign|membership", a0 == a1, "MembershipChanged", f"assignment names/components differ: {sorted(set(a0.items()) ^ set(a1.items()))[:6]}")
    # functional equality by name
    schemes = ["explicit_euler", "generalized_rush_larsen"]
    v0 = checks.make_view(prog, ode0, "numpy", label="numpy|orig", schemes=schemes)
    if v0 is None:
        prog2 = Prog(PROP, task)
        schemes = ["explicit_euler"]
        v0 = checks.make_view(prog2, ode0, "numpy", label="numpy|orig", schemes=schemes)
        if v0 is None:
            return prog.result()
        prog.violations = [v for v in prog.violations if "numpy|orig" not in v["key"]]
    v1 = checks.make_view(prog, ode1, "numpy", label="numpy|reloaded", schemes=schemes)
    if v1 is None:
        return prog.result()
    dom = checks.model_domain(prog, m0)
    for fn, kind in [("rhs", "state"), ("monitor_values", "monitor")] + [(s, "state") for s in schemes]:
        r0 = checks.sym_function(prog, v0, fn, label=f"numpy|{fn}|orig|exec")
        r1 = checks.sym_function(prog, v1, fn, label=f"numpy|{fn}|reloaded|exec")
        if r0 is None or r1 is None:
            continue
        i0, i1 = v0.index_map(kind), v1.index_map(kind)
        prog.fact(f"numpy|{kind}_index|names|{fn}", set(i0) == set(i1), "NamesChanged", f"{kind} names differ: {sorted(set(i0) ^ set(i1))}")
        for name in sorted(set(i0) & set(i1)):
            a, b = i0[name], i1[name]
            label = f"numpy|{fn}|{name}"
            if a not in r0[0] or b not in r1[0]:
                prog.fact(label, False, "SlotNotWritten", f"{fn} slot for {name} missing")
                continue
            ge = (lambda inputs, b=b, fn=fn: v1.concrete(fn, inputs)[b])
            re_ = (lambda inputs, a=a, fn=fn: v0.concrete(fn, inputs)[a])
            prog.eq(label, dom, r1[0][b], r0[0][a], gen_eval=ge, ref_eval=re_, what=f"{fn}[{name}] reloaded vs original")
    return prog.result()


def bounds(tier):
    return {"programs": "SAVE constructs + %s of the C01 universe + corpus" % ("70" if tier == "quick" else "1500"), "inputs": "all reals",
            "imported": "Myokit models %s: import -> save -> reload -> emitted rhs/init vs Myokit's expression trees (shared with C15's forward check)"
            % ("(5 of 12)" if tier == "quick" else "(all 12 MYO models)")}
