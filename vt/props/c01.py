"""C01 - generated NumPy rhs computes the derivatives the model text defines."""
from __future__ import annotations

from .. import families, checks, pipeline
from ..core import Prog, witness_tasks, text_id
from ..views import PyView

PROP = "C01"
LEVEL = "translation_validation"
RULE = ("programs are enumerated from the EXPR/LEAF/FUNC/COND/DAG/LAYOUT generators (vt/families.py) plus "
        "tests/odefiles; a program is non-trivial when at least one of its slot obligations needed a real "
        "solver query (was not closed by syntactic simplification); distinct = distinct model text hash")
FUNCTIONS = ["gotranx.load.ode_from_string", "gotranx.cli.gotran2py.get_code -> emitted rhs, monitor_values"]
ASSUME = [
    "reals, not floats: unsat means the emitted function and the reference denote the same real function on the domain",
    "program axis enumerated (bounded families), input axis solver-quantified over all reals in the per-slot domain",
    "elementary functions are uninterpreted + lemma library (vt/smt.py); literals canonicalised to the simplest rational within half an ulp",
    "reference semantics vt/refsem.py written from docs/grammar.md",
]


# models whose quantities are called like the temporaries of sympy.cse (x0, x1, ...) and that repeat sub-expressions
CSE_MODELS = [
    "parameters(k=0.5, g=2.0)\nstates(x0=1.0, x1=2.0, x2=0.5)\n"
    "a0 = exp(k*x0) + g*exp(k*x0)\na1 = exp(k*x0)*x1 + (g + x1)*(g + x1)\n"
    "dx0_dt = a0 - (g + x1)*(g + x1)\ndx1_dt = a1*x2 + exp(k*x0)\ndx2_dt = -x2*exp(k*x0) + (g + x1)*(g + x1)*x2\n",
    "parameters(x3=0.5, x4=2.0)\nstates(V=1.0, m=2.0)\n"
    "x5 = (V + x4)*(V + x4) + sin(V + x4)\nx6 = x5*m + sin(V + x4)/(V + x4)\n"
    "dV_dt = -x6 + x3*(V + x4)\ndm_dt = x5 - m*(V + x4)*(V + x4)\n",
]


EXTRA_MODELS = [
    # conditions that sympy.simplify used to SOLVE when the Conditional is nested / a function argument (fixed 75f2433):
    # periodic condition (first period only), closed bound printed open (other branch exactly on x = +-2)
    "parameters(a=1.0, b=2.0)\nstates(x=1.0, y=2.0)\nstim = Conditional(Ge(y, 1), a, Conditional(Gt(sin(t), 0.5), b, 0))\n"
    "win = Conditional(Ge(t, 100), 0, Conditional(Lt(cos(x), 1.0), x + y, y))\ndx_dt = stim - x\ndy_dt = win - y\n",
    "states(x=1.0, y=2.0)\nw = sin(Conditional(Ge(x**-2, 0.25), abs(y), 0*x))\nv = Conditional(Gt(y, 0), 1, Conditional(Le(x**2, 4), x, y))\ndx_dt = w - x\ndy_dt = v - y\n",
    # an integer-valued quantity (sum of comparisons) referred to by name as the base of a negative integer power
    "parameters(a=0.5)\nstates(x=1.0, m=2.0)\nk = 1 + Gt(m, 1.0)\nn2 = Conditional(Gt(x, a), 2, 4)\ndx_dt = k**-1 - x\ndm_dt = a*n2**-2 - m*k**(-3)\n",
]

# genuine defects that are recorded, not repaired (DESIGN section 8): deterministic witnesses, matched by exact key
KNOWN_MODELS = {
    # sympy rewrites Abs(exp(u)) to exp(re(u)) when u is not provably real; `re` cannot be printed (nor saved)
    "abs-exp-sqrt": "parameters(g=6.0)\nstates(z=0.5)\nalpha_m = Abs(exp(g**0.5))\ndz_dt = alpha_m - z\n",
    # a constant intermediate that is zero is a Python number: dividing by it in a branch that is never taken raises
    # ZeroDivisionError (numpy.where evaluates both branches; numpy scalars would give inf and be discarded)
    "const-zero-divisor": "parameters(g=2.0)\nstates(u=0.01)\nq_ = 0\ntmp = Conditional(Gt(q_, 0.1), 0.25/q_, g)\ndu_dt = -tmp*u\n",
}


def tasks(tier, seed):
    P = families.value_programs(tier, seed)
    names = ["lorentz.ode", "fitzhughnagumo.ode", "beeler_reuter_1977.ode"] if tier == "quick" else None
    P += families.corpus(names)
    from .. import gen
    P += gen.programs(tier, seed, 300, 3000, "std") + gen.programs(tier, seed, 150, 1500, "full")
    out = [dict(p, opts={}) for p in P]
    # the remove_unused option must not change what rhs computes (nor make it read a name that is no longer unpacked):
    # models with unused parameters / states / chains of unused intermediates, and every fourth GEN program
    from . import c12
    for t in c12.UNUSED:
        out.append({"family": "UNUSED", "id": text_id(t), "text": t, "opts": {"remove_unused": True}})
    for k, p in enumerate(o for o in list(out) if o["family"] == "GEN"):
        if k % 4 == 0:
            out.append(dict(p, id=p["id"] + "|ru", opts={"remove_unused": True}))
    # options of CodeGenerator.rhs / monitor_values that get_code does not expose: use_cse (documented flag)
    for t in CSE_MODELS:
        out.append({"family": "CSE", "id": text_id(t), "text": t, "opts": {"use_cse": True}})
    for t in EXTRA_MODELS:
        out.append({"family": "EXTRA", "id": text_id(t), "text": t, "opts": {}, "meta": {"keep": True}})
    for k, t in KNOWN_MODELS.items():
        out.append({"family": "KNOWN", "id": k, "text": t, "opts": {}})
    return out + witness_tasks(PROP)


def work(task):
    prog = Prog(PROP, task, timeout_ms=10000 if task["family"] != "CORPUS" else 20000)
    m, ode = checks.load_all(prog, task["text"])
    if ode is None:
        return prog.result()
    if task["opts"].get("remove_unused"):
        code = checks.generate(prog, "numpy|get_code|remove_unused", pipeline.gen_py, ode, remove_unused=True)
        if code is None:
            return prog.result()
        try:
            view = PyView(code, "numpy")
        except SyntaxError as e:
            prog.fact("numpy|parse|ru", False, "SyntaxError", f"emitted module does not parse: {e}")
            return prog.result()
        checks.check_named_slots(prog, view, m, "rhs", "state", [n for n in m.assigns if m.derivative_of(n)], "rhs", tag="|ru")
        prog.nontrivial = True
        return prog.result()
    if task["opts"].get("use_cse"):
        code = checks.generate(prog, "numpy|CodeGenerator.rhs(use_cse=True)", pipeline.gen_py_generator, ode,
                               rhs_kwargs={"use_cse": True}, monitor_kwargs={"use_cse": True})
    else:
        code = checks.generate(prog, "numpy|get_code", pipeline.gen_py, ode)
    if code is None:
        return prog.result()
    try:
        view = PyView(code, "numpy")
    except SyntaxError as e:
        prog.fact("numpy|parse", False, "SyntaxError", f"emitted module does not parse: {e}")
        return prog.result()
    checks.check_rhs_monitor(prog, view, m)
    prog.nontrivial = prog.stats.queries > 0 and (prog.stats.solver_s > 0)
    return prog.result()


def bounds(tier):
    return {"EXPR": "operator sequences over + - * / ** with <= %d operands, one parenthesised group, unary minus on <= 2 operands" % (3 if tier == "quick" else 4),
            "inputs": "all reals in the per-slot definedness domain (unbounded)", "solver_timeout_ms": 10000}
