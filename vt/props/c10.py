"""C10 - the model does not depend on the order in which statements are written."""
from __future__ import annotations

import itertools
import random

from .. import checks, pipeline
from ..core import Prog, witness_tasks, text_id

PROP = "C10"
LEVEL = "translation_validation"
RULE = ("structured base models x permutations of blocks, of entries inside declaration blocks and of lines inside "
        "expression blocks (exhaustive up to 5 items, seeded sample beyond); each permuted text is loaded by the real loader "
        "and compared with the base: real ODE.__eq__, bytes of the generated NumPy/C modules, and solver-decided equality of "
        "every rhs/monitor/scheme slot; non-trivial = permuted text differs from the base text and uses a name before its definition")
FUNCTIONS = ["gotranx.load.ode_from_string", "TreeToODE.ode", "ODE.__eq__", "ODE.sorted_assignments", "gotran2py/gotran2c.get_code"]
ASSUME = ["permutations are enumerated (bounded), functional equality of the two emitted modules is decided by z3 for all real inputs",
          "combined with C09 (set-iteration order) which is the only place textual order could leak once atoms are in sets"]

# block = (kind, component, items); kind in states/parameters/expr
BASES = [
    [("parameters", None, ["sigma=12.0", "rho=21.0", "beta=2.4"]), ("states", None, ["x=1.0", "y=2.0", "z=3.05"]),
     ("expr", None, ["dx_dt = sigma * (y - x)", "a = rho - z", "dy_dt = x * a - y", "dz_dt = x * y - beta * z"])],
    [("states", "A", ["x=1.0"]), ("states", "B", ["y=ScalarParam(2.0, unit=\"mV\")", "w=0.5"]),
     ("parameters", "A", ["a=0.5"]), ("parameters", "B", ["b=2.0", "c=1/4"]),
     ("expr", "A", ["ia = a*x + y", "dx_dt = -ia"]), ("expr", "B", ["ib = b*y - ia*c", "dy_dt = ib/b", "dw_dt = -w + ib"])],
    [("parameters", None, ["p=0.5", "q=2.0"]), ("states", None, ["u=1.0", "v=0.0"]),
     ("expr", None, ["i0 = p*u", "i1 = i0 + q*v", "i2 = i1*i0", "du_dt = -i2", "dv_dt = i1 - v"])],
    [("states", "M", ["V=-80.0"]), ("states", "G", ["m=0.1", "h=0.9"]), ("parameters", "M", ["g=0.3", "e=-60.0"]),
     ("expr", "G", ["minf = 1/(1 + exp(-(V + 40)/8))", "dm_dt = (minf - m)*2", "dh_dt = 0.25*(1 - h) - h*exp(V/20)"]),
     ("expr", "M", ["ileak = g*(V - e)", "dV_dt = -(ileak + m*m*m*h*(V - 50))"])],
    # independent equations in several components whose names interleave alphabetically (ties in the topological order)
    [("states", "fast", ["u=1.0", "b=2.0"]), ("states", "slow", ["w=0.5", "a=0.3"]), ("parameters", "fast", ["k1=2.0"]),
     ("parameters", "slow", ["k2=0.5"]), ("expr", "slow", ["dw_dt = -w*k2", "da_dt = -a + w"]),
     ("expr", "fast", ["du_dt = -u*k1", "db_dt = -b + u"])],
    [("states", "zeta", ["p=1.0"]), ("states", "alpha", ["q=2.0"]), ("states", "mid", ["r=3.0"]),
     ("expr", "zeta", ["ip = p*2", "dp_dt = -ip"]), ("expr", "alpha", ["iq = q*3", "dq_dt = -iq"]), ("expr", "mid", ["ir = r*4", "dr_dt = -ir + ip*iq"])],
    # the same parameter declared identically in the blocks of two components (accepted: identical definitions)
    [("parameters", "A", ["g=2.0", "a=1.5"]), ("parameters", "B", ["g=2.0", "b=3.0"]), ("states", "A", ["x=1.0"]), ("states", "B", ["y=2.0"]),
     ("expr", "A", ["dx_dt = -g*x*a + y"]), ("expr", "B", ["dy_dt = -g*y*b + x"])],
    # a shared declaration that carries its unit / description in one block only
    [("parameters", "fast", ['g_K=ScalarParam(0.3, unit="mS")', "kf=1.0"]), ("parameters", "slow", ["g_K=0.3", "ks=2.0"]),
     ("states", "fast", ["x=1.0"]), ("states", "slow", ["y=2.0"]),
     ("expr", "fast", ["dx_dt = -g_K*x*kf + y"]), ("expr", "slow", ["dy_dt = -g_K*y*ks + x"])],
    [("parameters", "P", ["Cm=1.0", "kp=1.0"]), ("parameters", "Q", ['Cm=ScalarParam(1.0, unit="uF", description="capacitance")', "kq=2.0"]),
     ("states", "P", ["x=1.0"]), ("states", "Q", ["y=2.0"]),
     ("expr", "P", ["sh = Cm*x # mV", "dx_dt = -sh*kp + y"]), ("expr", "Q", ["sh = Cm*x", "dy_dt = -sh*kq + x"])],
    # names that differ only in case, in different components
    [("parameters", "fast", ["Km=2.0", "v=0.5"]), ("parameters", "slow", ["km=0.25", "V=1.5"]), ("states", "fast", ["s=1.0"]), ("states", "slow", ["S=2.0"]),
     ("expr", "fast", ["ds_dt = -v*s/(Km + s) + S"]), ("expr", "slow", ["dS_dt = -V*S/(km + S) + s"])],
    # mixed style: header-less (default component) lines next to a headed block
    [("parameters", None, ["sigma=12.0"]), ("parameters", "slow", ["rho=21.0", "beta=2.4"]), ("states", None, ["x=1.0"]),
     ("states", "slow", ["y=2.0", "z=3.05"]), ("expr", None, ["s = sigma*y", "dx_dt = s - sigma*x"]),
     ("expr", "slow", ["a = rho - z", "dy_dt = x*a - y", "dz_dt = x*y - beta*z"])],
]


def render(blocks):
    out = []
    for kind, comp, items in blocks:
        if kind in ("states", "parameters"):
            head = f'{kind}("{comp}", ' if comp else f"{kind}("
            out.append(head + ", ".join(items) + ")")
        else:
            if comp:
                out.append(f'expressions("{comp}")')
            out += items
    return "\n".join(out) + "\n"


def perms(seq, limit, rnd):
    seq = list(seq)
    if len(seq) <= 1:
        return [seq]
    allp = list(itertools.permutations(seq))
    if len(allp) <= limit:
        return [list(p) for p in allp]
    pick = [allp[0], allp[-1]] + rnd.sample(allp[1:-1], limit - 2)
    return [list(p) for p in pick]


def variants(blocks, tier, seed, lim=None):
    rnd = random.Random(seed)
    lim = lim or (6 if tier == "quick" else 120)
    out = []
    # (a) block permutations (expression blocks without component header must stay "headerless": the
    #     component of an un-headed expression block is the default one wherever it stands)
    for p in perms(range(len(blocks)), lim, rnd):
        out.append(("blocks", [blocks[i] for i in p]))
    # (b) entry permutations inside each declaration block, (c) line permutations in expression blocks
    for bi, (kind, comp, items) in enumerate(blocks):
        for p in perms(items, lim, rnd):
            if p == items:
                continue
            nb = list(blocks)
            nb[bi] = (kind, comp, p)
            out.append(("entries" if kind != "expr" else "lines", nb))
    # (d) everything reversed
    out.append(("all-reversed", [(k, c, it[::-1]) for k, c, it in blocks[::-1]]))
    return out


def tasks(tier, seed):
    out = []
    from .. import gen
    G = [p["meta"]["blocks"] for p in gen.programs(tier, seed, 14, 140, "std")]
    for bi, blocks in enumerate(BASES + G):
        base = render(blocks)
        seen = {base}
        for kind, nb in variants(blocks, tier, seed + bi, lim=None if bi < len(BASES) else (4 if tier == "quick" else 10)):
            t = render(nb)
            if t in seen:
                continue
            seen.add(t)
            # structural class of a known grammar limitation: a header-less expression block placed directly after a
            # headed expression block is absorbed into the headed block ((assignment)+ keeps consuming lines)
            ex = [(i, c) for i, (k, c, _) in enumerate(nb) if k == "expr"]
            absorbed = any(nb[i][1] is None and i > 0 and nb[i - 1][0] == "expr" and nb[i - 1][1] is not None for i, _ in ex)
            out.append({"family": "PERM", "id": text_id(t), "text": t,
                        "opts": {"base": base, "kind": kind, "headerless_after_headed": absorbed}})
    return out + witness_tasks(PROP)


class ClassKeyProg(Prog):
    def key(self, label):
        if self.task["opts"].get("headerless_after_headed"):
            return f"{self.prop}|PERM|header-less expression block directly after a headed expression block"
        return super().key(label)


def work(task):
    prog = ClassKeyProg(PROP, task, timeout_ms=10000)
    base = task["opts"]["base"]
    m0, ode0 = checks.load_all(prog, base)
    if ode0 is None:
        return prog.result()
    try:
        ode1 = pipeline.load(task["text"], name="ode")
    except Exception as e:
        prog.fact("load-permuted", False, "PermutedTextRejected", f"permutation ({task['opts']['kind']}) of a valid model "
                  f"does not load: {type(e).__name__}: {e}"[:300])
        return prog.result()
    prog.fact("ode-equal", ode1 == ode0 and ode0 == ode1, "NotEqual", f"ODE.__eq__ is False for a {task['opts']['kind']} permutation "
              f"(components {[c.name for c in ode0.components]} vs {[c.name for c in ode1.components]})")
    # component contents (the sub-model workflow) must not depend on the order of the blocks either
    try:
        for comp0 in ode0.components:
            comp1 = ode1.get_component(comp0.name)
            a, b = comp0.to_ode(), comp1.to_ode()
            same = (sorted(x.name for x in a.parameters) == sorted(x.name for x in b.parameters)
                    and sorted(x.name for x in a.states) == sorted(x.name for x in b.states)
                    and dict(a.missing_variables) == dict(b.missing_variables))
            prog.fact(f"component|{comp0.name}", same, "ComponentChanged",
                      f"component {comp0.name!r}: parameters/states/missing variables differ after a {task['opts']['kind']} permutation: "
                      f"{sorted(x.name for x in a.parameters)}/{dict(a.missing_variables)} vs {sorted(x.name for x in b.parameters)}/{dict(b.missing_variables)}")
    except Exception as e:
        prog.fact("component|lookup", False, "ComponentChanged", f"component lookup failed after permutation: {type(e).__name__}: {e}"[:200])
    schemes = ["explicit_euler", "generalized_rush_larsen"]
    for backend in ("numpy", "c"):
        v0 = checks.make_view(prog, ode0, backend, label=f"{backend}|base", schemes=schemes)
        v1 = checks.make_view(prog, ode1, backend, label=f"{backend}|perm", schemes=schemes)
        if v0 is None or v1 is None:
            continue
        prog.fact(f"{backend}|bytes", v0.code == v1.code, "CodeDiffers", f"{backend} code differs for a {task['opts']['kind']} permutation")
        for kind in ("state", "parameter", "monitor"):
            prog.fact(f"{backend}|{kind}_index", v0.index_map(kind) == v1.index_map(kind), "LayoutChanged",
                      f"{kind} layout {v0.index_map(kind)} vs {v1.index_map(kind)}")
        dom = checks.model_domain(prog, m0)
        for fn in ["rhs", "monitor_values"] + schemes:
            r0 = checks.sym_function(prog, v0, fn, label=f"{backend}|{fn}|base|exec")
            r1 = checks.sym_function(prog, v1, fn, label=f"{backend}|{fn}|perm|exec")
            if r0 is None or r1 is None:
                continue
            for idx in sorted(set(r0[0]) | set(r1[0])):
                label = f"{backend}|{fn}|slot{idx}"
                if idx not in r0[0] or idx not in r1[0]:
                    prog.fact(label, False, "SlotNotWritten", f"{fn} slot {idx} written by only one")
                    continue
                ge = (lambda inputs, idx=idx, fn=fn: v1.concrete(fn, inputs)[idx])
                re_ = (lambda inputs, idx=idx, fn=fn: v0.concrete(fn, inputs)[idx])
                prog.eq(label, dom, r1[0][idx], r0[0][idx], gen_eval=ge, ref_eval=re_, what=f"{fn}[{idx}] permuted vs base")
        if backend == "c":
            v0.close()
            v1.close()
    prog.nontrivial = task["text"] != base
    return prog.result()


def bounds(tier):
    return {"bases": len(BASES), "permutations": "exhaustive up to %d per block/list, sampled beyond" % (6 if tier == "quick" else 120),
            "inputs": "all reals"}
