"""C12 - removing unused variables never changes results."""
from __future__ import annotations

from .. import families, checks, refsem
from ..core import Prog, witness_tasks, text_id

PROP = "C12"
LEVEL = "translation_validation"
RULE = ("DAG programs with unused parameters/states/intermediates/chains + layout + corpus x backends x {rhs, explicit_euler, "
        "generalized_rush_larsen, hybrid_rush_larsen}; relational: module(remove_unused=True) vs module(False) slot by slot; "
        "non-trivial = the two emitted modules differ (something was actually removed)")
FUNCTIONS = ["ODE.dependents", "ODE.sorted_assignments(remove_unused)", "CodeGenerator._condition/_state_assignments/_parameter_assignments",
             "schemes.* (remove_unused)", "emitted rhs + schemes of both modules"]
ASSUME = ["a read of a name whose definition/unpacking was removed is a NameError in the symbolic executor (Python) or a compile error (C), replayed by really calling / compiling",
          "slot layout: index maps and output lengths of the two modules must be identical"]

UNUSED = [
    "parameters(p=0.5, q=2.0, dead=3.0)\nstates(x=1.0, lonely=5.0)\nuu = p*lonely\nchain0 = q + dead\nchain1 = chain0*2\nchain2 = chain1 + x\ndx_dt = -q*x\ndlonely_dt = 1.0\n",
    "parameters(p=0.5, only_in_dead=2.0)\nstates(x=1.0, y=2.0)\nkeep = p*x\ndead1 = only_in_dead*y\ndead2 = dead1 + keep\ndx_dt = -keep\ndy_dt = 0.5\n",
    "parameters(a=1.0, b=2.0, c=3.0)\nstates(x=1.0, y=2.0, z=3.0)\nu1 = a*x\nu2 = u1 + b\nu3 = u2*u1\nv = c*z\ndx_dt = -u2\ndy_dt = -y\ndz_dt = x - z\n",
    "parameters(a=1.0)\nstates(x=1.0, y=2.0)\nm1 = Conditional(Gt(y, 0), a, -a)\nm2 = m1*x\ndx_dt = -x\ndy_dt = -a\n",
    "parameters(a=1.0, unused=2.0)\nstates(x=1.0)\ndx_dt = -a*x*t\n",
    "parameters(a=1.0)\nstates(x=1.0, y=2.0)\nlin = a*y\ndx_dt = lin - x\ndy_dt = -lin*y\nmon = x*y\n",
]
UNUSED += [
    "parameters(g=9.81, c=0.1)\nstates(h=0.0, v=1.0)\ndh_dt = v\ndv_dt = -g - c*v*abs(v)\n",
    "parameters(a=1.0, b=2.0, k=0.5)\nstates(x=1.0, y=0.5)\ntau = a + b*x\nalpha = 1/tau\nzeta = alpha*2\nbeta = zeta + y\ndx_dt = -k*x*alpha\ndy_dt = -beta*y\nmon_unused = tau*beta\n",
]
UNUSED += [
    # used quantities whose names the printers rename (reserved words of Python / C) next to unused ones
    "parameters(lambda=0.5, len=2.0, dead=3.0)\nstates(shape=1.0, y=2.0)\nkeep = lambda*shape\ngone = dead*y\ndshape_dt = -keep + len\ndy_dt = -y*len\n",
    "parameters(long=0.5, short=2.0, dead=3.0)\nstates(double=1.0, y=2.0)\nkeep = long*double\ngone = dead*y\nddouble_dt = -keep + short\ndy_dt = -y*short\n",
    "parameters(in=0.5, unused_is=2.0)\nstates(as=1.0, not_used=2.0)\ndas_dt = -in*as\ndnot_used_dt = 1\n",
]
SCHEMES = ["explicit_euler", "generalized_rush_larsen", "hybrid_rush_larsen"]


def tasks(tier, seed):
    P = [{"family": "UNUSED", "id": text_id(t), "text": t, "meta": {}} for t in UNUSED]
    dg = families.dag_family(3, 2)
    P += families.select(dg, 45 if tier == "quick" else 900, seed)
    P += families.layout_family()
    P += families.corpus(["lorentz.ode", "fitzhughnagumo.ode"] if tier == "quick" else None)
    from .. import gen
    P += gen.programs(tier, seed, 100, 1000, "std")
    backends = ["numpy", "jax", "c"]
    out = []
    from . import c13
    for text, comp in ((c13.MODELS[-1], "A"), (c13.MODELS[0], "B"), (c13.MODELS[2], "Q")):
        out.append({"family": "SUBODE", "id": text_id(text, comp), "text": text, "opts": {"backends": ["numpy"], "component": comp}})
    for i, p in enumerate(P):
        out.append(dict(p, opts={"backends": [backends[i % 3]] if tier == "quick" and p["family"] != "UNUSED" else backends}))
    return out + witness_tasks(PROP)


def work(task):
    prog = Prog(PROP, task, timeout_ms=10000)
    m, ode = checks.load_all(prog, task["text"])
    if ode is None:
        return prog.result()
    if task.get("opts", {}).get("component"):
        # a sub-model with missing variables: its slot layout (incl. the missing-variable array) must not change either
        ode = ode.get_component(task["opts"]["component"]).to_ode()
        from ..pipeline import gen_py
        try:
            import re as _re
            codes = [gen_py(ode, schemes=["explicit_euler"], remove_unused=ru) for ru in (False, True)]
            mi = [_re.search(r"^missing = (\{.*\})$", c, _re.M) for c in codes]
            prog.fact("numpy|missing_index|same", bool(mi[0]) and bool(mi[1]) and mi[0].group(1) == mi[1].group(1), "LayoutChanged",
                      f"missing-variable layout changes with remove_unused: {mi[0] and mi[0].group(1)} vs {mi[1] and mi[1].group(1)}")
        except Exception as e:
            prog.fact("numpy|sub-ode|generate", False, "GenerationError", f"{type(e).__name__}: {e}"[:200])
        m = None
    stiff = sorted(refsem.parse_model(task["text"]).states)[:1] if m is None else sorted(m.states)[:1]
    if m is None:
        stiff = [s.name for s in ode.states][:1]
    for backend in task.get("opts", {}).get("backends", ["numpy"]):
        kw = dict(schemes=SCHEMES, stiff_states=stiff)
        v0 = checks.make_view(prog, ode, backend, label=f"{backend}|get_code|keep", remove_unused=False, **kw)
        v1 = checks.make_view(prog, ode, backend, label=f"{backend}|get_code|remove", remove_unused=True, **kw)
        if v0 is None or v1 is None:
            continue
        if v0.code != v1.code:
            prog.nontrivial = True
        for kind in ("state", "parameter", "monitor"):
            prog.fact(f"{backend}|{kind}_index|same", v0.index_map(kind) == v1.index_map(kind), "LayoutChanged",
                      f"{kind} index map changes with remove_unused: {v0.index_map(kind)} vs {v1.index_map(kind)}")
        dom = checks.model_domain(prog, m) if m is not None else []
        for fn in ["rhs", "monitor_values"] + SCHEMES:
            r0 = checks.sym_function(prog, v0, fn, label=f"{backend}|{fn}|keep|exec")
            r1 = checks.sym_function(prog, v1, fn, label=f"{backend}|{fn}|remove|exec")
            if r0 is None or r1 is None:
                continue
            s0, n0, _ = r0
            s1, n1, _ = r1
            prog.fact(f"{backend}|{fn}|length", n0 == n1, "LengthChanged", f"{fn}: {n0} vs {n1} outputs")
            for idx in sorted(set(s0) | set(s1)):
                label = f"{backend}|{fn}|slot{idx}"
                if idx not in s0 or idx not in s1:
                    prog.fact(label, False, "SlotNotWritten", f"{fn} slot {idx} written by only one variant")
                    continue
                ge = (lambda inputs, idx=idx, fn=fn: v1.concrete(fn, inputs)[idx])
                re_ = (lambda inputs, idx=idx, fn=fn: v0.concrete(fn, inputs)[idx])
                prog.eq(label, dom, s1[idx], s0[idx], gen_eval=ge, ref_eval=re_, what=f"{fn}[{idx}] remove_unused vs keep")
        if backend == "c":
            v0.close()
            v1.close()
    return prog.result()


def bounds(tier):
    return {"programs": "6 UNUSED + %s DAG(k<=3 intermediates, <=2 states) + LAYOUT + corpus" % ("45" if tier == "quick" else "900"),
            "schemes": SCHEMES, "inputs": "all reals incl. dt"}
