"""C09 - generated code and slot layout are reproducible across processes."""
from __future__ import annotations

import hashlib
import json
import os
import subprocess
import sys

from .. import families, checks, pipeline, xhair
from ..core import Prog, witness_tasks, text_id

PROP = "C09"
LEVEL = "other"
RULE = ("(i) CrossHair executes the real gotranx.ode.sort_assignments + graphlib with the iteration order of every "
        "dependency set symbolic (Lehmer-coded permutations), one condition per dependency graph taken from DAG/LAYOUT "
        "programs loaded by the real loader; (ii) CrossHair executes the real get_scheme after a symbolic history of "
        "earlier calls; (iii) the same programs are generated in fresh subprocesses under different PYTHONHASHSEEDs and "
        "byte-compared (replay, non-deciding); non-trivial = graph with at least one dependency set of size >= 2")
FUNCTIONS = ["gotranx.ode.sort_assignments", "graphlib.TopologicalSorter", "gotranx.schemes.get_scheme",
             "gotran2py.get_code / gotran2c.get_code (subprocess, hash seeds)"]
ASSUME = ["the hidden schedule is the iteration order of each frozenset of dependencies; CrossHair quantifies over all "
          "permutations of every dependency set of the graph (product space), the graphs themselves are enumerated",
          "set-order channels other than the topological tie-break are covered only by the subprocess hash-seed comparison",
          "CrossHair per-condition timeout => inconclusive, never success"]
EXPLANATION = ("Schedules = set iteration orders. Decided by CrossHair (symbolic execution of the real Python with z3) per "
               "dependency graph; 'Confirmed over all paths' discharges, a counterexample is replayed by calling the real "
               "function concretely and by regenerating under several PYTHONHASHSEEDs.")
TASK_LIMIT = 600

HARNESS_HEAD = '''
from types import SimpleNamespace
from gotranx.ode import sort_assignments

GRAPH = {graph!r}


def _perm(items, code):
    items = list(items)
    out = []
    for k in range(len(items), 0, -1):
        out.append(items.pop(code % k))
        code //= k
    return out


def _build(codes):
    return [SimpleNamespace(name=n, value=SimpleNamespace(dependencies=tuple(_perm(d, c))))
            for (n, d), c in zip(GRAPH, codes)]
'''

HARNESS_COND = '''

def order_independent_{k}({params}) -> bool:
    """
    pre: {pre}
    post: _
    """
    codes = [{codes}]
    a = sort_assignments(_build(codes), assignments_only={ao})
    b = sort_assignments(_build([0] * len(GRAPH)), assignments_only={ao})
    return a == b


def reach_twin_{k}({params}) -> bool:
    """
    pre: {pre}
    post: _
    """
    codes = [{codes}]
    a = sort_assignments(_build(codes), assignments_only={ao})
    return len(a) < 0
'''

SCHEME_HARNESS = '''
import warnings
warnings.simplefilter("ignore")
from gotranx.schemes import get_scheme

NAMES = ["forward_euler", "forward_explicit_euler", "euler", "explicit_euler", "forward_generalized_rush_larsen",
         "generalized_rush_larsen", "forward_rush_larsen", "rush_larsen", "hybrid_rush_larsen"]
BASE = {"forward_euler": "explicit_euler", "forward_explicit_euler": "explicit_euler", "euler": "explicit_euler",
        "explicit_euler": "explicit_euler", "forward_generalized_rush_larsen": "generalized_rush_larsen",
        "generalized_rush_larsen": "generalized_rush_larsen", "forward_rush_larsen": "hybrid_rush_larsen",
        "rush_larsen": "hybrid_rush_larsen", "hybrid_rush_larsen": "hybrid_rush_larsen"}


import gotranx.schemes as _S
_ORIG = {n: getattr(_S, n).__code__ for n in ("explicit_euler", "generalized_rush_larsen", "hybrid_rush_larsen")}


def _fresh_process():
    # every explored path starts from the state of a fresh process (CrossHair runs all paths in one interpreter)
    for n, c in _ORIG.items():
        getattr(_S, n).__code__ = c


def history_independent(h0: int, h1: int, last: int) -> bool:
    """
    pre: 0 <= h0 < 9 and 0 <= h1 < 9 and 0 <= last < 9
    post: _
    """
    _fresh_process()
    get_scheme(NAMES[h0])
    get_scheme(NAMES[h1])
    f = get_scheme(NAMES[last])
    import gotranx.schemes as S
    return f.__code__.co_name == NAMES[last] and f is getattr(S, BASE[NAMES[last]])


def history_twin(h0: int, h1: int, last: int) -> bool:
    """
    pre: 0 <= h0 < 9 and 0 <= h1 < 9 and 0 <= last < 9
    post: _
    """
    f = get_scheme(NAMES[last])
    return f is None
'''

GEN_SCRIPT = r'''
import sys, json, hashlib
sys.path.insert(0, "/verif")
from vt import pipeline
text = sys.stdin.read()
ode = pipeline.load(text)
out = {}
out["py"] = pipeline.gen_py(ode, schemes=["explicit_euler", "generalized_rush_larsen"])
out["c"] = pipeline.gen_c(ode, schemes=["explicit_euler"])
out["states"] = [s.name for s in ode.sorted_states()]
out["params"] = [p.name for p in ode.parameters]
out["inter"] = [p.name for p in ode.intermediates]
out["jax"] = pipeline.gen_py(ode, backend="jax", schemes=["explicit_euler"], remove_unused=True)
# sub-models (component split): missing-variable layout and code
out["sub"] = {}
if len(ode.components) > 1:
    for comp in ode.components:
        a = comp.to_ode(); b = ode - comp
        out["sub"][comp.name] = [dict(a.missing_variables), dict(b.missing_variables),
                                 pipeline.gen_py(a, schemes=["explicit_euler"]),
                                 pipeline.gen_py(b, missing_values=dict(a.missing_variables)) if a.missing_variables else ""]
out["assign"] = [a.name for a in ode.sorted_assignments()]
print("RESULT" + json.dumps(out))
'''


def graph_of(ode):
    items = tuple(ode.intermediates) + tuple(ode.state_derivatives)
    return [(a.name, sorted(a.value.dependencies)) for a in items]


def factorial(n):
    r = 1
    for i in range(2, n + 1):
        r *= i
    return r


MAX_SPACE = 240


def symbolic_subsets(graph, MAX_SPACE=240):
    """Which dependency sets are symbolic in each condition: all of them when the product of
    their permutation counts is <= MAX_SPACE, else every pair (and every single big set)."""
    big = [i for i, (_, d) in enumerate(graph) if len(d) >= 2]
    space = 1
    for i in big:
        space *= factorial(len(graph[i][1]))
    if space <= MAX_SPACE or len(big) <= 1:
        return [big], space, True
    subs = []
    for a in range(len(big)):
        for b in range(a + 1, len(big)):
            pair = [big[a], big[b]]
            sp = factorial(len(graph[pair[0]][1])) * factorial(len(graph[pair[1]][1]))
            if sp <= MAX_SPACE:
                subs.append(pair)
            else:
                subs.append([pair[0]])
                subs.append([pair[1]])
    uniq = []
    for x in subs:
        if x not in uniq:
            uniq.append(x)
    return uniq, space, False


def make_harness(graph, ao=True, max_cond=None, max_space=240):
    subs, space, full = symbolic_subsets(graph, max_space)
    if max_cond and len(subs) > max_cond:
        step = len(subs) / max_cond
        subs = [subs[int(i * step)] for i in range(max_cond)]
    src = HARNESS_HEAD.format(graph=graph)
    for k, sub in enumerate(subs):
        params, pre, codes = [], [], []
        for i, (n, d) in enumerate(graph):
            if i in sub:
                params.append(f"c{i}: int")
                pre.append(f"0 <= c{i} < {factorial(len(d))}")
                codes.append(f"c{i}")
            else:
                codes.append("0")
        if not params:
            params, pre = ["c0: int"], ["0 <= c0 < 1"]
        src += HARNESS_COND.format(k=k, params=", ".join(params), pre=" and ".join(pre), codes=", ".join(codes), ao=ao)
    return src, len(subs), full


def tasks(tier, seed):
    P = []
    extra = [
        "states(x=1.0, y=2.0)\na = x + y\ndy_dt = -y\ndx_dt = -x\n",
        "parameters(p=1.0, q=2.0)\nstates(x=1.0, y=2.0, z=3.0)\nu = x*y + z\nv = u + p*q + z\ndx_dt = -u\ndy_dt = -v*y\ndz_dt = x - z + u\n",
        "parameters(k=1.0)\nstates(b=1.0, a=2.0, c=3.0)\ndb_dt = a*c*k\nda_dt = b*c\ndc_dt = -a*b\n",
    ]
    # names that tie under case-folding / stripping / length keys (any sort key weaker than the name itself
    # falls back to set iteration order, i.e. to the hash seed)
    extra += [
        "parameters(K=2.0, k=0.5, a=1.0, A=3.0)\nstates(X=1.0, x=2.0)\nI = K*x\ni = k*X\ndX_dt = -I + a\ndx_dt = -i*A\n",
        "parameters(g_K=2.0, g_k=0.5, gK=1.0)\nstates(v=1.0, V=2.0, v_=3.0)\nab = g_K*v\nAB = g_k*V\naB = gK*v_\ndv_dt = -ab\ndV_dt = -AB\ndv__dt = -aB\n",
        "parameters(p1=1.0, p10=2.0, p2=3.0, P1=4.0)\nstates(s1=1.0, s10=2.0, S1=3.0)\nds1_dt = -p1*s1\nds10_dt = -p10*s10 + p2\ndS1_dt = -P1*S1\n",
    ]
    extra += [
        # multi-component: several missing variables first referenced in different assignments, non-alphabetically
        'parameters("A", a=0.5)\nparameters("B", b=2.0)\nstates("A", x=1.0, w=0.3)\nstates("B", q=2.0, p=0.5, zz=1.5)\n'
        'expressions("A")\nu1 = a*x + q\nu2 = w*zz\nu3 = u1 + p\ndx_dt = -u3\ndw_dt = -u2 + p*q\n'
        'expressions("B")\ndq_dt = -b*q + x\ndp_dt = -p + w\ndzz_dt = -zz*x\n',
    ]
    for t in extra:
        P.append({"family": "ORDER", "id": text_id(t), "text": t, "meta": {}})
    dg = families.dag_family(3, 2)
    P += families.select(dg, 14 if tier == "quick" else 90, seed)
    P += families.layout_family()
    if tier != "quick":
        P += families.corpus(["lorentz.ode", "fitzhughnagumo.ode"])
    from .. import gen
    P += gen.programs(tier, seed, 6, 60, "std")
    out = [dict(p, opts={"mode": "graph", "both": tier != "quick", "max_cond": 4 if tier == "quick" else None,
                     "max_space": 40 if tier == "quick" else 240}) for p in P]
    out.append({"family": "SCHEME", "id": "get_scheme_history", "text": "", "opts": {"mode": "scheme"}})
    out.append({"family": "HISTORY", "id": "load_history", "text": "", "opts": {"mode": "load-history"}})
    return out + witness_tasks(PROP)


def gen_under_seed(text, seed):
    env = dict(os.environ, PYTHONHASHSEED=str(seed), PYTHONPATH="/verif")
    p = subprocess.run([sys.executable, "-c", GEN_SCRIPT], input=text, capture_output=True, text=True, env=env, timeout=300)
    for line in p.stdout.splitlines():
        if line.startswith("RESULT"):
            return json.loads(line[6:])
    raise RuntimeError(p.stderr[-400:])


def work(task):
    prog = Prog(PROP, task)
    mode = task.get("opts", {}).get("mode", "graph")
    tier_timeout = 90
    if mode == "load-history":
        return load_history(prog)
    if mode == "scheme":
        res = xhair.run_crosshair(SCHEME_HARNESS, timeout_s=240)
        handle(prog, res, SCHEME_HARNESS, "get_scheme", main="history_independent", twin="history_twin")
        prog.nontrivial = True
        return prog.result()
    m, ode = checks.load_all(prog, task["text"])
    if ode is None:
        return prog.result()
    graph = graph_of(ode)
    prog.nontrivial = any(len(d) >= 2 for _, d in graph)
    subs, space, full = symbolic_subsets(graph, task.get("opts", {}).get("max_space", 240))
    for ao in ((True, False) if task.get("opts", {}).get("both") else (True,)):
        src, ncond, full = make_harness(graph, ao, max_cond=task.get("opts", {}).get("max_cond"),
                                         max_space=task.get("opts", {}).get("max_space", 240))
        res = xhair.run_crosshair(src, timeout_s=tier_timeout)
        for k in range(ncond):
            handle(prog, res, src, f"sort_assignments(assignments_only={ao})#{k}", main=f"order_independent_{k}",
                   twin=f"reach_twin_{k}", text=task["text"])
    prog.notes.append({"graph": graph, "orders": space, "full_product_symbolic": full})
    # (iii) fresh processes under different hash seeds (replay-level, also a direct reproduction)
    try:
        seeds = (0, 1, 2, 3) if task["family"] != "ORDER" else (0, 1, 2, 3, 4, 5, 6, 7)
        outs = [gen_under_seed(task["text"], s) for s in seeds]
        same = all(o == outs[0] for o in outs[1:])
        detail = ""
        if not same:
            detail = (f"state / parameter order under the seeds: {[o['states'] for o in outs]} / {[o['params'] for o in outs]}")[:400]
        prog.fact("hashseed|bytes-identical", same, "HashSeedDependent",
                  "generated code differs between PYTHONHASHSEED values: " + detail)
    except Exception as e:
        prog.skip("hashseed", f"subprocess generation failed: {e}")
    if len(prog.samples) < 3:
        prog.samples.append({"program": prog.pid, "graph": graph, "symbolic_orders": space,
                             "model_text": task["text"][:600]})
    return prog.result()


HIST_V1 = "parameters(a=1.0, b=2.0)\nstates(x=1.0, y=2.0)\ndx_dt = -a*x\ndy_dt = -b*y + x\n"
HIST_V2 = "parameters(a=1.0, b=3.5)\nstates(x=1.0, y=2.0)\ndx_dt = -a*x + y\ndy_dt = -b*y + x*x\n"
HIST_SCRIPT = r'''
import sys, os, json, shutil
sys.path.insert(0, "/verif")
from vt import pipeline
pipeline.quiet()
from gotranx.load import load_ode
d, mode = sys.argv[1], sys.argv[2]
p = os.path.join(d, "model.ode")
v1, v2 = open(os.path.join(d, "v1.ode")).read(), open(os.path.join(d, "v2.ode")).read()
out = {}
if mode == "history":
    # earlier calls in the same process: load + generate v1 through the same path, then the file content changes
    # while its mtime stays the same (cp -p, git checkout, archives with normalised timestamps, coarse mtime)
    open(p, "w").write(v1); os.utime(p, (1_700_000_000, 1_700_000_000))
    pipeline.gen_py(load_ode(p), schemes=["explicit_euler"])
    os.chdir(d)
    pipeline.gen_py(load_ode("model.ode"))
    open(p, "w").write(v2); os.utime(p, (1_700_000_000, 1_700_000_000))
    out["abs"] = pipeline.gen_py(load_ode(p), schemes=["explicit_euler"])
    out["rel"] = pipeline.gen_py(load_ode("model.ode"), schemes=["explicit_euler"])
    out["again"] = pipeline.gen_py(load_ode(p), schemes=["explicit_euler"])
else:
    open(p, "w").write(v2)
    out["abs"] = out["rel"] = out["again"] = pipeline.gen_py(load_ode(p), schemes=["explicit_euler"])
# argument objects reused across generations (request dict of missing values, scheme list, stiff-state list)
from gotranx.load import ode_from_string
from gotranx.schemes import Scheme
SPLIT = ('parameters("A", a=0.5)\nparameters("B", b=2.0)\nstates("A", x=1.0)\nstates("B", y=2.0, z=0.5)\n'
         'expressions("A")\nia = a*x + y\ndx_dt = -ia + z\nexpressions("B")\nib = b*y - x\ndy_dt = ib/b\ndz_dt = -z + ib + ia\n')
full = ode_from_string(SPLIT)
comp = full.get_component("A")
sub, rest = comp.to_ode(), full - comp
def fresh_args():
    return dict(sub.missing_variables), ["explicit_euler", "hybrid_rush_larsen"], ["y"]
wanted, schemes, stiff = fresh_args()
for k in ("obj-first", "obj-second"):
    if mode != "history":
        wanted, schemes, stiff = fresh_args()
    out[k] = pipeline.gen_py(rest, schemes=schemes, stiff_states=stiff, missing_values=wanted)
if mode != "history":
    wanted, schemes, stiff = fresh_args()
out["obj-c"] = pipeline.gen_c(rest, schemes=schemes, stiff_states=stiff, missing_values=wanted)
if mode != "history":
    wanted, schemes, stiff = fresh_args()
out["obj-jax"] = pipeline.gen_py(rest, backend="jax", schemes=schemes, stiff_states=stiff, missing_values=wanted)
print("RESULT" + json.dumps(out))
'''


def load_history(prog):
    """Histories of earlier load/generate calls in one process vs a fresh process (same file, same options)."""
    import tempfile
    res = {}
    with tempfile.TemporaryDirectory(prefix="vt_c09h_") as d:
        open(os.path.join(d, "v1.ode"), "w").write(HIST_V1)
        open(os.path.join(d, "v2.ode"), "w").write(HIST_V2)
        for mode in ("fresh", "history"):
            env = dict(os.environ, PYTHONPATH="/verif")
            p = subprocess.run([sys.executable, "-c", HIST_SCRIPT, d, mode], capture_output=True, text=True, env=env, timeout=300)
            for line in p.stdout.splitlines():
                if line.startswith("RESULT"):
                    res[mode] = json.loads(line[6:])
            if mode not in res:
                prog.skip("load-history", f"subprocess failed: {p.stderr[-300:]}")
                return prog.result()
    for k in ("abs", "rel", "again"):
        prog.fact(f"load-history|{k}", res["history"][k] == res["fresh"][k], "HistoryDependent",
                  f"code generated for a file after earlier load/generate calls through the same path ({k}) differs from a fresh process")
    for k in ("obj-first", "obj-second", "obj-c", "obj-jax"):
        prog.fact(f"argument-history|{k}", res["history"][k] == res["fresh"][k], "HistoryDependent",
                  f"code generated with argument objects (missing-values dict, scheme list, stiff-state list) that were already used "
                  f"by an earlier generation ({k}) differs from the code generated with fresh, equal arguments")
    prog.nontrivial = True
    prog.samples.append({"history": "load v1 (abs + relative path), rewrite file with v2 keeping mtime, load again", "fresh": "load v2"})
    return prog.result()


def handle(prog, res, src, what, main, twin, text=None):
    by = {}
    for r in res:
        by.setdefault(r["function"], []).append(r)
    tw = by.get(twin, [])
    # reachability twin must come back violated (non-vacuity)
    twin_ok = any(r["verdict"] == "counterexample" for r in tw)
    mains = by.get(main, [])
    label = f"crosshair|{what}"
    if not mains:
        prog.skip(label, "no crosshair verdict: " + "; ".join(r["message"][:200] for r in res))
        return
    r = mains[0]
    if r["verdict"] == "confirmed":
        if not twin_ok:
            prog.skip(label, "confirmed but the reachability twin was not violated (possibly vacuous)")
            return
        prog.obligations += 1
        prog.discharged += 1
        prog.stats.queries += 1
        prog.stats.unsat += 1
        prog.stats.solver_s += r.get("wall", 0)
        return
    if r["verdict"] == "counterexample" and r.get("call"):
        ok, out = xhair.run_concrete(src, r["call"])
        prog.obligations += 1
        prog.stats.queries += 1
        prog.stats.sat += 1
        if ok and out.strip() == "False":
            prog._violation(label, "OrderDependent", f"{what}: CrossHair counterexample {r['call']} reproduces on the real function "
                            f"(the harness condition returns False when called concretely in a fresh interpreter)",
                            {"call": r["call"]})
        else:
            prog.unreproduced.append({"key": prog.key(label), "what": r["message"], "tried": [{"concrete": out[:200]}]})
        return
    prog.skip(label, f"crosshair: {r['verdict']}: {r['message'][:200]}")


def bounds(tier):
    return {"graphs": "dependency graphs of 3 ORDER + %s DAG + LAYOUT programs" % ("14" if tier == "quick" else "90"),
            "orders": "all permutations of every dependency set jointly when the product <= 240, else all joint permutations of every pair of sets (others canonical)", "history": "2 earlier get_scheme calls x 9 names",
            "crosshair_per_condition_timeout_s": 90, "hash_seeds": [0, 1, 2, 3]}
