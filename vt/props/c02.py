"""C02 - generated C compiles and computes the values the model defines."""
from __future__ import annotations

from .. import families, checks
from ..core import Prog, witness_tasks, text_id

PROP = "C02"
LEVEL = "translation_validation"
RULE = ("C01 program universe + integer-literal quotient/exponent, Mod/floor/abs sign, nested-ternary programs; each "
        "emitted C module is compiled by gcc and clang in default mode, lowered by clang-14 -O1 to LLVM IR and "
        "executed symbolically; non-trivial = a slot obligation needed a real solver query")
FUNCTIONS = ["gotranx.cli.gotran2c.get_code", "GotranCCodePrinter", "emitted C rhs, monitor_values, explicit_euler, "
             "generalized_rush_larsen, init_state_values, init_parameter_values (via clang-14 LLVM IR)"]
ASSUME = [
    "clang-14 front end + -O1 (-fno-builtin -ffp-contract=off, no vectorisation) resolves C precedence, integer vs floating arithmetic and constant folding; it is a compiler users may use and is trusted",
    "C's fmod/frem are modelled as truncating remainder, floor as to_int; reals not doubles",
    "other compilers / -ffast-math are outside the claim",
]

INT_EXPRS = [
    "1/4", "x/4", "1/4*x", "x*1/4", "(1/4)*x", "2/3*y", "(2*3)/3", "x**(1/3)", "x**(2/3)", "x**(1/2)", "y**(3/2)",
    "1/2 + 1/3", "7/2", "(x + 1)/2", "1/(2*x)", "3/4 - x/2", "x**2/2", "2**(1/2)", "a**(1/4)", "-1/3*x", "-(1/3)",
    "1/3.0", "1.0/3", "10/4*y", "floor(7/2)", "Mod(7, 2)", "Mod(-7, 2)", "Mod(x, 2)", "Mod(-x, 3)", "Mod(x, -3)",
    "Mod(x, y)", "floor(-x)", "floor(x/2)", "abs(-x)", "abs(x - y)", "Mod(x + 10, 5) - 2", "Mod(t, b)", "Mod(x*y, 2.5)",
    "Conditional(Gt(x, 0), Conditional(Gt(y, 0), 1, 2), Conditional(Lt(y, -1), 3, 4))",
    "Conditional(And(Gt(x, 0), Or(Lt(y, 2), Ge(z, 1))), x, y)", "Conditional(Or(And(Gt(x, 0), Lt(y, 2)), Ge(z, 1)), 1/2, 1/3)",
    "Conditional(Not(Gt(x, 0)), 1, 0)/4", "Gt(x, 0)/2", "Conditional(Eq(x, 1), 1/4, 3/4)",
    # integer-valued sub-expressions: C picks int arithmetic / the int overloads for them
    "abs(floor(x))", "abs(floor(x) - 3)*y", "Abs(floor(x/2))", "2000000000 + 2000000000", "x + (2000000000 + 2000000000)",
    "floor(x) + 1", "floor(x)/2", "floor(x)**2", "(floor(x) + 1)/(floor(y) + 3)", "Conditional(Gt(x, 0), 1, 0) + Conditional(Gt(y, 0), 1, 0)",
    "(Conditional(Gt(x, 0.25), 3, 1) + 1)/4", "Lt(x, 2)/2", "3000000000", "-2147483648 - 1", "abs(2 - 5)", "Mod(floor(x), 3)",
]
INT_PARAM_MODEL = ("parameters(c=1/4, d=2/3, e=1/2 + 1, f=10/4, g=3, h=-1/8)\nstates(x=1/2, y=3/4, z=2)\n"
                   "dx_dt = c*x + d\ndy_dt = e*y - f\ndz_dt = g*z + h\n")


def tasks(tier, seed):
    P = families.pack(INT_EXPRS, "CINT", per=4)
    P.append({"family": "CINT", "id": text_id(INT_PARAM_MODEL), "text": INT_PARAM_MODEL, "meta": {}})
    from . import c12
    P += [{"family": "UNUSED", "id": text_id(t), "text": t, "meta": {}} for t in c12.UNUSED]
    V = families.value_programs(tier, seed)
    if tier == "quick":
        V = families.select(V, 110, seed)
        P += V + families.corpus(["lorentz.ode", "beeler_reuter_1977.ode"])
    else:
        P += V + families.corpus()
    from .. import gen
    P += gen.programs(tier, seed, 120, 1500, "std") + gen.programs(tier, seed, 60, 600, "full")
    return [dict(p, opts={}) for p in P] + witness_tasks(PROP)


def work(task):
    prog = Prog(PROP, task, timeout_ms=10000 if task["family"] != "CORPUS" else 20000)
    m, ode = checks.load_all(prog, task["text"])
    if ode is None:
        return prog.result()
    schemes = ["explicit_euler", "generalized_rush_larsen"]
    view = checks.make_view(prog, ode, "c", schemes=schemes)
    if view is None:
        # the RL scheme may be ungeneratable for this program (C06); retry without it
        prog2 = Prog(PROP, task)
        view = checks.make_view(prog2, ode, "c", schemes=["explicit_euler"])
        if view is None:
            return prog.result()
        prog.violations = []
        prog.obligations = 0
        schemes = ["explicit_euler"]
    try:
        cut = checks.check_rhs_monitor(prog, view, m)
        checks.check_init_defaults(prog, view, m)
        checks.check_euler(prog, view, m)
        if "generalized_rush_larsen" in schemes and task["family"] != "CORPUS":
            checks.check_grl(prog, view, m, 1e-8, cut=cut)
    finally:
        view.close()
    if task["family"] in ("CINT", "UNUSED", "LAYOUT", "DAG"):
        # the same functions generated with remove_unused=True (monitor_values keeps every monitored quantity)
        vr = checks.make_view(prog, ode, "c", label="c|get_code|remove_unused", schemes=["explicit_euler"], remove_unused=True)
        if vr is not None:
            try:
                checks.check_rhs_monitor(prog, vr, m, tag="|ru")
                checks.check_euler(prog, vr, m, tag="|ru")
            finally:
                vr.close()
    prog.nontrivial = prog.stats.solver_s > 0
    return prog.result()


def bounds(tier):
    return {"programs": "CINT (integer quotient/exponent, Mod/floor/abs, nested conditionals) + " +
            ("110 of the C01 universe + 2 corpus" if tier == "quick" else "the whole C01 universe + corpus"),
            "inputs": "all reals in the per-slot domain", "compilers": ["gcc default mode", "clang-14 default mode"]}
