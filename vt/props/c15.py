"""C15 - importing a Myokit / CellML model preserves its dynamics."""
from __future__ import annotations

import os
import tempfile

from .. import checks, pipeline, refsem
from ..core import Prog, witness_tasks, text_id, differs
from ..myokit2smt import MyoRef
from ..pysym import Unsupported
from ..views import PyView

PROP = "C15"
LEVEL = "translation_validation"
RULE = ("MYO family (small .mmt models: nested variables, names clashing with sympy names, if/piecewise, arithmetic/relational/logic "
        "operators, dot() references, embedded pacing protocol) + tests/mmt_files + tests/cellml_files; reference = a walk of Myokit's OWN "
        "expression trees (variables inlined by variable object); the NumPy rhs of load(save(myokit_to_gotran(M))) is proved equal per state "
        "for ALL states/constants/time (not only near the initial state); initial values and constants compared by unique name; "
        "gotran_to_myokit is walked the same way in the other direction; non-trivial = model with at least one intermediate variable")
FUNCTIONS = ["gotranx.myokit.myokit_to_gotran", "extract_nested_variables", "gotran_to_myokit", "mmt_to_gotran / cellml_to_gotran", "ODE.save + load_ode",
             "emitted rhs / init_* of the reloaded model"]
ASSUME = ["Myokit's parser, its expression trees, create_unique_names and add_embedded_protocol are the reference side (trusted); CellML XML parsing is Myokit's",
          "a state / constant is looked up in the emitted index maps under its Myokit unique name (or that name + '_', the importer's documented escape)"]
TASK_LIMIT = 600

HEAD = "[[model]]\nname: {name}\n{inits}\n\n[engine]\ntime = 0 bind time\npace = 0 bind pace\n\n"
MODELS = {
    "basic": ("membrane.V = -80\ngate.m = 0.1",
              "[membrane]\ndot(V) = -(i_leak + gate.i_na + i_stim) / C\nC = 1.0\ni_leak = g * (V - Er)\n    g = 0.3\n    Er = -60\n"
              "i_stim = engine.pace * amp\n    amp = -80\n\n[gate]\nuse membrane.V as V\ndot(m) = (inf - m) / tau\n"
              "    inf = 1 / (1 + exp(-(V + 40) / 8))\n    tau = 1.5 + V * V / 1000\ni_na = gna * m^3 * (V - 50)\n    gna = 12\n"),
    "conditionals": ("c.x = 1\nc.y = 2",
                     "[c]\ndot(x) = if(x < 1, -x, -2 * x) + k\nk = 0.5\ndot(y) = piecewise(y > 2, -1, y > 1, -0.5, 0.25) * y + z\n"
                     "z = if(x >= 0 and y <= 3, 1, 0) + if(x == 1 or not (y != 2), 2, 3)\n"),
    "sympy-names": ("c.S = 1\nc.N = 2",
                    "[c]\ndot(S) = -beta * S * I + gamma\nbeta = 0.5\ngamma = 0.25\nI = E * 2 + Q\n    E = 3\n    Q = N - 1\ndot(N) = -zeta * N + lambda_\nzeta = 0.1\nlambda_ = pi + 1\npi = 3\n"),
    "name-clash-nested": ("a.x = 1\nb.x = 2",
                          "[a]\ndot(x) = -k * x + b.x\nk = 2\n    \n[b]\ndot(x) = -k * x + a.x\nk = 3\n"),
    "nested-same-names": ("a.u = 1\nb.w = 2",
                          "[a]\ndot(u) = -r\nr = alpha * u\n    alpha = 2\n\n[b]\ndot(w) = -r\nr = alpha * w + a.u\n    alpha = 5\n"),
    "operators": ("c.x = 1.5\nc.y = 0.5",
                  "[c]\ndot(x) = -x ^ 2 + sqrt(y) - abs(x - y) + floor(x) * 0.1 + ceil(y) - (x // 2) + (x % 2)\n"
                  "dot(y) = log(x) - log10(x) + log(x, 2) + sin(x) * cos(y) - tan(y / 4) + asin(y / 2) + acos(y / 2) + atan(x) + exp(-y) + +x - -y\n"),
    "dot-reference": ("c.x = 1\nc.y = 2",
                      "[c]\ndot(x) = -k * x\nk = 2\ndot(y) = dot(x) * 0.5 - y\n"),
    "time-dependent": ("c.x = 1",
                       "[c]\ndot(x) = -x + sin(engine.time) + if(engine.time > 10, 1, 0)\n"),
    "variable-named-like-component": ("membrane.V = -80\nina.m = 0.1",
                                      "[membrane]\ndot(V) = -(ina.ina + ina.ina_late)\n\n[ina]\nuse membrane.V as V\n"
                                      "dot(m) = (0.5 - m) / 2\nina = g * m^3 * (V - E)\n    g = 12\n    E = 50\n"
                                      "ina_late = g * m * (V - E)\n    g = 0.1\n    E = 40\n"),
    "function-positions": ("c.n = 1.5\nc.y = 0.5",
                           "[c]\ndot(n) = k * ceil(n)^2 - n + floor(y)^2 - abs(n - 3)^3 / 4 + (ceil(y) + 1)^0.5\nk = 0.25\n"
                           "dot(y) = -ceil(n) * y + 2^ceil(y) - sqrt(n)^3 + exp(-y)^2 - (-y)^2 + -(y^2) + ceil(n - y) + ceil(engine.time / 3 - y) - floor(n - y)\n"),
    "small-literals": ("c.ca = 0.0002\nc.v = -80",
                       "[c]\ndot(ca) = -0.0000518213477 * ica + 0.0123456789012 * (0.0001 - ca) + 1.23456789e-9\nica = gca * (v - 65.4321098765)\n    gca = 0.09\n"
                       "dot(v) = -ica * 123456.789012 + 9.87654321e15 * 1e-16\n"),
    # units that carry a multiplier which is no SI prefix (minute, mmHg, mL/min): Myokit writes them as `Pa (133.322)`
    "unit-multipliers": ("c.P = 80\nc.V = 0.1",
                         "[c]\ndot(P) = (Q - P / R) / C\n    in [Pa (133.322)]\nQ = 5\n    in [m^3/s (1.67e-08)]\nR = 1.1\n    in [Pa (133.322)]\n"
                         "C = 1.5\n    in [mL]\ndot(V) = -k * V\n    in [mV]\nk = 0.25\n    in [1/ms]\ntau = 2\n    in [s (60)]\n"),
    "constant-expressions": ("c.x = 1",
                             "[c]\ndot(x) = -r * x + s\nr = 1 / 4\ns = 2 * k\nk = 3\n"),
}
PROTOCOL_MODELS = {"basic"}


def build(name):
    inits, body = MODELS[name]
    return HEAD.format(name=name, inits=inits) + body


def tasks(tier, seed):
    out = []
    for name in MODELS:
        out.append({"family": "MYO", "id": name, "text": build(name), "opts": {"kind": "mmt-text", "protocol": name in PROTOCOL_MODELS}})
    out.append({"family": "MYOFILE", "id": "example.mmt", "text": "", "opts": {"kind": "mmt-file", "path": "/repo/tests/mmt_files/example.mmt"}})
    out.append({"family": "MYOFILE", "id": "noble_1962.cellml", "text": "", "opts": {"kind": "cellml", "path": "/repo/tests/cellml_files/noble_1962.cellml"}})
    if tier != "quick":
        for t in out:
            if t["family"] == "MYOFILE":
                t["opts"]["back_rates"] = True
        out.append({"family": "MYOFILE", "id": "ToRORd_dynCl_mid.cellml", "text": "", "opts": {"kind": "cellml", "path": "/repo/tests/cellml_files/ToRORd_dynCl_mid.cellml"}})
    for t in ["parameters(a=0.5, b=2.0)\nstates(x=1.0, y=2.0)\nu = a*x + y\ndx_dt = -u + Conditional(Gt(x, 0), b, -b)\ndy_dt = u/b - exp(-y)\n",
              'parameters("A", a=ScalarParam(0.5, unit="mV"))\nstates("A", x=ScalarParam(1.0, unit="mV"))\nstates("B", y=2.0)\nexpressions("A")\ndx_dt = -a*x + y\nexpressions("B")\ndy_dt = x - y\n']:
        out.append({"family": "ODE2MYO", "id": text_id(t), "text": t, "opts": {"kind": "ode"}})
    return out + witness_tasks(PROP)


def load_myokit(o, text):
    import myokit
    protocol = None
    if o["kind"] == "mmt-text":
        model = myokit.parse_model(text)
        if o.get("protocol"):
            protocol = myokit.pacing.blocktrain(1000, 2, offset=50)
    elif o["kind"] == "mmt-file":
        model, protocol, _ = myokit.load(o["path"])
    else:
        import myokit.formats.cellml
        import warnings
        with warnings.catch_warnings():
            warnings.simplefilter("ignore")
            model = myokit.formats.cellml.CellMLImporter().model(o["path"])
    return model, protocol


def reference_model(model, protocol):
    """The Myokit model gotranx is asked to convert, with the protocol embedded the documented way."""
    import myokit.lib.guess
    ref = model.clone()
    if protocol is not None:
        myokit.lib.guess.add_embedded_protocol(ref, protocol)
    ref.create_unique_names()
    return ref


def check_against_myokit(prog, view, ref, tag, extra_dom=None, collect_dom=None):
    """Emitted rhs / init of `view` vs Myokit's own trees of `ref`."""
    c = prog.ctx
    smap, pmap = view.index_map("state"), view.index_map("parameter")

    def gname(var, table):
        u = var.uname()
        for cand in (u, u + "_"):
            if cand in table:
                return cand
        return None

    def name_of(var):
        if var.is_state():
            return gname(var, smap) or var.uname()
        return gname(var, pmap) or var.uname()

    states = list(ref.states())
    inits = ref.initial_values(as_floats=True)
    res = checks.sym_function(prog, view, "rhs", label=f"{tag}|rhs|exec")
    init = checks.sym_function(prog, view, "init_state_values", label=f"{tag}|init_state_values|exec")
    pinit = checks.sym_function(prog, view, "init_parameter_values", label=f"{tag}|init_parameter_values|exec") if pmap else None
    prog.fact(f"{tag}|n_states", len(smap) == len(states), "StateCount", f"{len(smap)} states generated, Myokit model has {len(states)}")
    for var, x0 in zip(states, inits):
        g = gname(var, smap)
        label = f"{tag}|state|{var.qname()}"
        if g is None:
            prog.fact(label, False, "StateMissing", f"Myokit state {var.qname()} (unique name {var.uname()}) has no slot in state_index {sorted(smap)}")
            continue
        idx = smap[g]
        if init is not None and idx in init[0]:
            from ..smt import RV, kappa_float
            prog.eq(label + "|initial", [], init[0][idx], RV(kappa_float(float(x0))),
                    gen_eval=lambda inputs, idx=idx: view.concrete("init_state_values", {})[idx], ref_eval=lambda inputs, x0=x0: x0,
                    what=f"initial value of {var.qname()}")
        if res is None or idx not in res[0]:
            continue
        mr = MyoRef(c, ref, name_of, is_param=lambda v: gname(v, pmap) is not None)
        try:
            want = mr.rate(var)
        except Unsupported as e:
            prog.skip(label + "|rate", str(e))
            continue

        def ref_eval(inputs, var=var):
            st = [inputs.get("s_" + name_of(v), 0.0) for v in states]
            m2 = ref.clone()
            bound = {}
            for v in ref.variables(deep=True):
                if (not v.is_state()) and v.rhs().is_literal() and not v.rhs().references() and v.binding() != "time" and gname(v, pmap):
                    key = "p_" + name_of(v)
                    if key in inputs:
                        m2.get(v.qname()).set_rhs(inputs[key])
                        if v.binding() is not None:
                            bound[v.binding()] = inputs[key]
            bound["time"] = inputs.get("t", 0.0)
            d = m2.evaluate_derivatives(state=st, inputs=bound, ignore_errors=True)
            return d[states.index(var)]

        ge = (lambda inputs, idx=idx: view.concrete("rhs", inputs)[idx])
        if collect_dom is not None:
            collect_dom.extend(mr.dom)
        prog.eq(label + "|rate", mr.dom + list(extra_dom or []), res[0][idx], want, gen_eval=ge, ref_eval=ref_eval,
                what=f"rhs[{g}] vs Myokit's derivative of {var.qname()}")
    # constants: a parameter with that value, or (the importer's is_Number split) an intermediate with that value
    mon = checks.sym_function(prog, view, "monitor_values", label=f"{tag}|monitor_values|exec")
    mmap = view.index_map("monitor")
    from ..smt import RV, kappa_float
    for v in ref.variables(deep=True):
        if (not v.is_state()) and v.rhs().is_literal() and not v.rhs().references() and v.binding() != "time":
            label = f"{tag}|constant|{v.qname()}"
            val = float(v.rhs().eval())
            g = gname(v, pmap)
            if g is not None and pinit is not None:
                idx = pmap[g]
                prog.eq(label, [], pinit[0][idx], RV(kappa_float(val)),
                        gen_eval=lambda inputs, idx=idx: view.concrete("init_parameter_values", {})[idx], ref_eval=lambda inputs, val=val: val,
                        what=f"value of constant {v.qname()}")
                continue
            g = gname(v, mmap)
            if g is not None and mon is not None and mmap[g] in mon[0]:
                idx = mmap[g]
                prog.eq(label, [], mon[0][idx], RV(kappa_float(val)),
                        gen_eval=lambda inputs, idx=idx: view.concrete("monitor_values", inputs)[idx], ref_eval=lambda inputs, val=val: val,
                        what=f"value of constant {v.qname()} (kept as an intermediate)")
                continue
            prog.fact(label, False, "ConstantMissing", f"Myokit constant {v.qname()} (unique name {v.uname()}) appears neither as parameter nor as intermediate")


def work(task, prop=PROP, back=True):
    prog = Prog(prop, task, timeout_ms=20000)
    o = task["opts"]
    import gotranx
    from gotranx.load import load_ode
    pipeline.quiet()
    if o["kind"] == "ode":
        return work_back(prog, task)
    try:
        model, protocol = load_myokit(o, task["text"])
        ref = reference_model(model, protocol)
    except Exception as e:
        prog.skip("myokit", f"myokit could not build the model: {type(e).__name__}: {e}"[:300])
        return prog.result()
    try:
        ode = gotranx.myokit.myokit_to_gotran(model, protocol=protocol)
    except Exception as e:
        prog.fact("import", False, "ImportRaised", f"myokit_to_gotran raised {type(e).__name__}: {e}"[:300])
        return prog.result()
    with tempfile.TemporaryDirectory(prefix="vt_c15_") as d:
        path = os.path.join(d, "imported.ode")
        try:
            ode.save(path)
        except Exception as e:
            prog.fact("save", False, "SaveRaised", f"saving the imported model raised {type(e).__name__}: {str(e)[:200]}")
            return prog.result()
        saved = open(path).read()
        try:
            ode2 = load_ode(path)
        except Exception as e:
            prog.fact("reload", False, "ReloadRejected", f"the saved import is rejected by the loader: {type(e).__name__}: {str(e)[:200]}")
            return prog.result()
    view = checks.make_view(prog, ode2, "numpy")
    if view is None:
        return prog.result()
    import_dom = []
    check_against_myokit(prog, view, ref, "import", collect_dom=import_dom)
    if not back:
        prog.nontrivial = len(ode2.intermediates) > 0
        if len(prog.samples) < 3:
            prog.samples.append({"model": task["id"], "saved_head": saved[:200]})
        return prog.result()
    # and back: gotran -> myokit, walked the same way against the emitted code of the reloaded model
    try:
        back = gotranx.myokit.gotran_to_myokit(ode2)
        back.create_unique_names()
        # the emitted side is only defined on the original model's domain (exact singular points)
        prog.timeout_ms = 6000
        if task["family"] == "MYO" or o.get("back_rates"):
            check_against_myokit(prog, view, back, "back", extra_dom=import_dom)
        else:
            prog.fact("back|converted", back.count_states() == len(ode2.states), "BackStates", "state count changed in back conversion")
        # units: every state / constant of the original that carries a unit has the same unit after import + save + reload +
        # back conversion (myokit.Unit equality: exponents and multiplier)
        by_uname = {v.uname(): v for v in back.variables(deep=True)}
        by_name = {v.name(): v for v in back.variables(deep=True)}
        for v in ref.variables(deep=True):
            if v.unit() is None or v.binding() is not None or not (v.is_state() or (v.rhs().is_literal() and not v.rhs().references())):
                continue
            w = by_uname.get(v.uname()) or by_name.get(v.uname()) or by_name.get(v.name())
            if w is None:
                continue
            prog.fact(f"back|unit|{v.qname()}", w.unit() is not None and w.unit() == v.unit(), "UnitChanged",
                      f"unit of {v.qname()}: {v.unit()} in the Myokit model, {w.unit()} after import and back conversion")
    except Exception as e:
        prog.fact("back", False, "BackConversionRaised", f"gotran_to_myokit raised {type(e).__name__}: {str(e)[:200]}")
    prog.nontrivial = len(ode2.intermediates) > 0
    if len(prog.samples) < 3:
        prog.samples.append({"model": task["id"], "states": [s.name for s in ode2.states][:10], "saved_head": saved[:200]})
    return prog.result()


def work_back(prog, task):
    import gotranx
    m, ode = checks.load_all(prog, task["text"])
    if ode is None:
        return prog.result()
    view = checks.make_view(prog, ode, "numpy")
    if view is None:
        return prog.result()
    try:
        back = gotranx.myokit.gotran_to_myokit(ode)
        back.create_unique_names()
    except Exception as e:
        prog.fact("back", False, "BackConversionRaised", f"gotran_to_myokit raised {type(e).__name__}: {str(e)[:200]}")
        return prog.result()
    check_against_myokit(prog, view, back, "ode2myokit")
    # units preserved
    for a in tuple(ode.states) + tuple(ode.parameters):
        if a.unit_str:
            try:
                v = [x for x in back.variables(deep=True) if x.uname() == a.name or x.name() == a.name][0]
                prog.fact(f"unit|{a.name}", str(v.unit()).strip("[]") == a.unit_str.replace("**", "^"), "UnitChanged",
                          f"{a.name}: unit {a.unit_str} became {v.unit()}")
            except Exception as e:
                prog.fact(f"unit|{a.name}", False, "UnitChanged", f"{a.name}: {e}")
    prog.nontrivial = True
    return prog.result()


def bounds(tier):
    return {"mmt_models": list(MODELS), "files": ["example.mmt", "noble_1962.cellml"] + (["ToRORd_dynCl_mid.cellml"] if tier != "quick" else []),
            "inputs": "all reals in the domain of Myokit's expressions (all states, constants, time)"}
