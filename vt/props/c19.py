"""C19 - model identifiers never collide with names the generated code uses itself."""
from __future__ import annotations

import keyword

from .. import checks, pipeline
from ..core import Prog, witness_tasks, text_id
from ..views import PyView

PROP = "C19"
LEVEL = "translation_validation"
RULE = ("IDENT list (generator-internal names, Python and C keywords, numpy/math/libm/sympy names, template helper names) x role "
        "{state, parameter, intermediate} x backend {numpy, jax, c}: either the real loader/generator raises, or every rhs / monitor / "
        "Euler / Rush-Larsen / init slot of the emitted module is proved equal to the reference meaning in which the identifier is "
        "just a model quantity (equivalently: equal to the same model with the identifier renamed); non-trivial = generation succeeded")
FUNCTIONS = ["gotranx.load.ode_from_string / make_ode (symbols['t'], symbols['time'])", "templates python/jax/c (fixed local names)",
             "CodeGenerator.scheme (dt symbol, <name>_linearized)", "emitted rhs, monitor_values, explicit_euler, generalized_rush_larsen, init_*"]
ASSUME = ["an identifier is acceptable when load or generation raises; emitted code that does not parse / compile, or whose slots differ from the "
          "reference, is a violation (replayed by exec / gcc / concrete call)",
          "known findings are keyed by (identifier, role, backend): the first failing obligation of that combination"]

INTERNAL = ["dt", "t", "time", "states", "parameters", "values", "shape", "missing_variables", "numpy", "math", "jax",
            "dx_dt_linearized", "_values_0", "_values_1", "_values_2", "_values_3", "_values_4", "_values_10", "state", "parameter", "monitor", "missing", "state_index",
            "parameter_index", "monitor_index", "rhs", "monitor_values", "init_state_values", "explicit_euler", "key", "value",
            "name", "NUM_STATES", "NUM_PARAMS", "len", "float", "int", "M_PI", "M_E", "strcmp", "fabs", "pow", "fmod", "main",
            "true", "false", "is_true", "xfalse", "True_", "where", "zeros", "logical_and", "floor", "exp_"]
PYKW = ["lambda", "def", "class", "if", "else", "for", "while", "return", "import", "from", "as", "in", "is", "not", "and", "or",
        "None", "True", "False", "pass", "with", "yield", "global", "del", "try", "except", "raise", "assert", "async", "await",
        "nonlocal", "break", "continue", "finally", "elif"]
CKW = ["double", "float", "const", "void", "char", "static", "struct", "switch", "case", "default", "long", "short", "unsigned",
       "signed", "sizeof", "typedef", "restrict", "inline", "auto", "register", "extern", "volatile", "union", "enum", "goto", "do"]
SYMPY = ["E", "I", "S", "N", "O", "Q", "beta", "gamma", "zeta", "oo", "zoo", "nan", "Symbol", "x0", "e", "pi2", "Abs2"]
FRESH = ["zq_fresh", "Vm", "Ca_i"]
ROLES = ["state", "parameter", "intermediate", "condintermediate", "nested"]
# two model names in one model: a name the printer renames (trailing underscore) next to the name it is renamed to, and
# a parameter named like a state derivative / like another quantity's renamed form
PAIRS = [("lambda", "lambda_"), ("lambda_", "lambda"), ("numpy", "numpy_"), ("numpy_", "numpy"), ("double", "double_"),
         ("double_", "double"), ("M_PI_", "M_PI"), ("fabs", "fabs_"), ("len_", "len"), ("in", "in_"), ("dx_dt", "i0"),
         ("dy_dt", "i0"), ("b", "dx_dt_"), ("x_", "y_"), ("async", "async_"), ("shape_", "shape"),
         # words that only ONE backend's printer reserves
         ("jax", "jax_"), ("jax_", "jax"), ("len", "len_"), ("shape", "shape_"), ("await_", "await"), ("float", "float_"), ("int_", "int")]
ALL_BACKEND_PAIRS = {"jax", "jax_", "len", "shape", "float", "int_"}


def pair_model(A, B):
    return (f"parameters(a=0.5, {A}=2.0)\nstates(x=1.0, y=3.0)\n{B} = a*x + 7\ndx_dt = -{B} + {A}*x\n"
            f"dy_dt = x - y*a + {B}*t*{A} + abs(x)\n")


def model_for(ident, role):
    S, P, I = "y", "b", "i0"
    if role == "condintermediate":
        # an intermediate whose right-hand side is a bare Conditional (printed through the Piecewise-assignment path)
        return (f"parameters(a=0.5, b=2.0)\nstates(x=1.0, y=3.0)\n"
                f"{ident} = Conditional(Gt(x, a), y*b, -y)\ndx_dt = -{ident} + b*x\ndy_dt = x - y*a + {ident}*t\n")
    if role == "nested":
        # a parameter read inside a Conditional that sits inside arithmetic (printed through the nested Piecewise path,
        # where printers post-process the printed text)
        return (f"parameters(a=0.5, {ident}=2.0)\nstates(x=1.0, y=3.0)\n"
                f"i0 = 1 + Conditional(Gt(x, {ident}), y*{ident}, Conditional(Lt(y, a), {ident}, -y))\n"
                f"dx_dt = -i0 + {ident}*x\ndy_dt = x - y*a + i0*t\n")
    if role == "state":
        S = ident
    elif role == "parameter":
        P = ident
    else:
        I = ident
    # the intermediate sits at depth 2 (depends on another intermediate) and its users depend otherwise only on
    # states / parameters, so a wrong ordering or a captured name changes numbers
    return (f"parameters(a=0.5, {P}=2.0)\nstates(x=1.0, {S}=3.0)\n"
            f"h0 = a*x\n{I} = h0 + {S}*{P}\ndx_dt = -{I} + {P}*x\nd{S}_dt = x - {S}*a + {I}*t\n")


def tasks(tier, seed):
    ids = INTERNAL + PYKW + CKW + SYMPY + FRESH
    seen = set()
    out = []
    backends = ["numpy", "jax", "c"]
    n = 0
    for ident in ids:
        if ident in seen:
            continue
        seen.add(ident)
        for role in ROLES:
            text = model_for(ident, role)
            if tier == "quick" and ident not in INTERNAL[:18]:
                bs = [backends[n % 3]]
                n += 1
            else:
                bs = backends
            for b in bs:
                out.append({"family": "IDENT", "id": f"{ident}:{role}", "text": text, "opts": {"ident": ident, "role": role, "backend": b}})
    for k, (A, B) in enumerate(PAIRS):
        for b in (backends if (tier != "quick" or A in ALL_BACKEND_PAIRS) else [backends[k % 3], backends[(k + 1) % 3]]):
            out.append({"family": "PAIR", "id": f"{A}+{B}", "text": pair_model(A, B), "opts": {"ident": A, "role": "pair", "backend": b}})
    # a state / parameter with an internal name that NOTHING reads, generated with remove_unused=True and schemes: pruned
    # quantities are still unpacked by the schemes, monitor_values and missing_values
    k = 0
    for ident in ["dt", "t", "time", "states", "parameters", "values", "missing_variables", "shape", "numpy", "len", "dx_dt_linearized", "jax"]:
        for role in ("state", "parameter"):
            if role == "state":
                text = f"parameters(a=0.5)\nstates(x=1.0, {ident}=3.0)\ndx_dt = -a*x + t\nd{ident}_dt = 1\n"
            else:
                text = f"parameters(a=0.5, {ident}=3.0)\nstates(x=1.0, y=2.0)\ndx_dt = -a*x + t\ndy_dt = x - y\n"
            for b in (backends if tier != "quick" else [backends[k % 3]]):
                out.append({"family": "UNUSEDIDENT", "id": f"{ident}:{role}|remove_unused", "text": text,
                            "opts": {"ident": ident, "role": role, "backend": b, "remove_unused": True}})
            k += 1
    # a renamed word that nothing depends on (monitored only) next to its renamed form, generated with remove_unused=True
    for k, A in enumerate(["lambda", "in", "numpy", "double", "len", "fabs"]):
        text = (f"parameters(a=0.5, {A}_=2.0)\nstates(x=1.0, y=3.0)\n{A} = a*x + 7\nuse = {A}_*x\n"
                f"dx_dt = -use + a\ndy_dt = x - y*{A}_\n")
        for b in (backends if tier != "quick" else [backends[k % 3], "numpy"]):
            out.append({"family": "PAIR", "id": f"{A}+{A}_|remove_unused", "text": text,
                        "opts": {"ident": A, "role": "pair", "backend": b, "remove_unused": True}})
    return out + witness_tasks(PROP)


class OneKeyProg(Prog):
    """All violations of one (identifier, role, backend) share one key (the first failing obligation is reported)."""

    def key(self, label):
        return f"{self.prop}|{self.family}:{self.pid}|{self.task['opts']['backend']}"

    def _violation(self, label, kind, detail, data):
        return super()._violation(label, kind, f"[{label}] {detail}", data)


def work(task):
    prog = OneKeyProg(PROP, task, timeout_ms=10000)
    o = task["opts"]
    try:
        import vt.refsem as refsem
        m = refsem.parse_model(task["text"])
    except Exception as e:
        prog.skip("parse", f"reference parser: {e}")
        return prog.result()
    try:
        ode = pipeline.load(task["text"])
    except Exception as e:
        prog.fact("rejected-at-load", True, "", "")
        prog.notes.append(f"load raised {type(e).__name__}")
        return prog.result()
    backend = o["backend"]
    schemes = ["explicit_euler", "generalized_rush_larsen"]
    kw = {"remove_unused": True} if o.get("remove_unused") else {}
    try:
        if backend == "c":
            pipeline.gen_c(ode, schemes=schemes, **kw)
        else:
            pipeline.gen_py(ode, backend=backend, schemes=schemes, **kw)
    except Exception as e:
        prog.fact("rejected-at-generation", True, "", "")
        prog.notes.append(f"generation raised {type(e).__name__}")
        return prog.result()
    view = checks.make_view(prog, ode, backend, schemes=schemes, **kw)
    if view is None:
        return prog.result()
    prog.nontrivial = True
    try:
        cut = checks.check_rhs_monitor(prog, view, m)
        checks.check_init_defaults(prog, view, m)
        checks.check_euler(prog, view, m)
        checks.check_grl(prog, view, m, 1e-8, cut=cut)
        if backend != "c":
            # the module must also import and run for real (names such as `numpy` or `len` can be captured at run time)
            try:
                r = view.concrete("rhs", {"s_x": 0.5, "t": 0.25})
                ok = len(r) == 2
                detail = f"rhs returned {r}"
            except Exception as e:
                ok, detail = False, f"real call of rhs raised {type(e).__name__}: {str(e)[:150]}"
            prog.fact("real-call|rhs", ok, "RuntimeCapture", detail)
            try:
                r = view.concrete("init_state_values", {})
                ok, detail = len(r) == 2, f"init_state_values returned {r}"
            except Exception as e:
                ok, detail = False, f"real call of init_state_values raised {type(e).__name__}: {str(e)[:150]}"
            prog.fact("real-call|init_state_values", ok, "RuntimeCapture", detail)
    finally:
        if backend == "c":
            view.close()
    return prog.result()


def bounds(tier):
    return {"identifiers": len(set(INTERNAL + PYKW + CKW + SYMPY + FRESH)), "roles": ROLES,
            "backends": "one per (identifier, role) in quick, all three in thorough", "inputs": "all reals"}
