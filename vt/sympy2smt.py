"""E4b - sympy expression -> term (used for C20's symbolic matrices and C15)."""
from __future__ import annotations

from fractions import Fraction

import z3

from .pysym import Unsupported
from .smt import Ctx, RV, kappa_float


def to_term(ctx: Ctx, e, sym):
    """sym: callable name -> z3 term for sympy Symbols."""
    import sympy as sp

    c = ctx

    def go(e):
        if e.is_Symbol:
            return sym(e.name)
        if e.is_Integer:
            return RV(Fraction(int(e)))
        if e.is_Rational:
            return RV(Fraction(int(e.p), int(e.q)))
        if e.is_Float:
            try:
                return RV(kappa_float(float(e)))
            except ValueError:
                # sympy folded an overflowing constant (exp of a huge number) to inf / nan: float overflow, outside every claim
                raise Unsupported(f"non-finite literal {e}")
        if e is sp.pi:
            return c.pi
        if e is sp.E:
            return c.exp(RV(1))
        if e is sp.true:
            return z3.BoolVal(True)
        if e is sp.false:
            return z3.BoolVal(False)
        if e.is_Add:
            r = None
            for a in e.args:
                t = c.real(go(a))
                r = t if r is None else r + t
            return r
        if e.is_Mul:
            r = None
            for a in e.args:
                t = c.real(go(a))
                r = t if r is None else r * t
            return r
        if e.is_Pow:
            return c.pow(go(e.args[0]), go(e.args[1]))
        if isinstance(e, sp.exp):
            return c.exp(go(e.args[0]))
        if isinstance(e, sp.log):
            return c.log(go(e.args[0]))
        for cls, name in ((sp.sin, "sin"), (sp.cos, "cos"), (sp.tan, "tan"), (sp.asin, "asin"), (sp.acos, "acos"),
                          (sp.atan, "atan")):
            if isinstance(e, cls):
                return c.fn(name, go(e.args[0]))
        if isinstance(e, sp.Abs):
            return c.abs(go(e.args[0]))
        if isinstance(e, sp.sign):
            return c.sign(go(e.args[0]))
        if isinstance(e, sp.floor):
            return c.floor(go(e.args[0]))
        if isinstance(e, sp.ceiling):
            return -c.floor(-c.real(go(e.args[0])))
        if isinstance(e, sp.Mod):
            return c.floormod(go(e.args[0]), go(e.args[1]))
        if isinstance(e, sp.Piecewise):
            res = None
            for val, cond in reversed(e.args):
                v = go(val)
                if cond is sp.true:
                    res = v
                else:
                    if res is None:
                        res = c.inp("undef_piecewise")
                    res = c.ite(go(cond), v, res)
            return res
        if isinstance(e, sp.core.relational.Relational):
            return c.rel(e.rel_op, go(e.lhs), go(e.rhs))
        if isinstance(e, sp.And):
            return c.and_(*[go(a) for a in e.args])
        if isinstance(e, sp.Or):
            return c.or_(*[go(a) for a in e.args])
        if isinstance(e, sp.Not):
            return c.not_(go(e.args[0]))
        if isinstance(e, sp.ITE):
            cc, a, b = (go(x) for x in e.args)
            return c.or_(c.and_(cc, a), c.and_(c.not_(cc), b))
        if e is sp.true:
            return z3.BoolVal(True)
        if e is sp.false:
            return z3.BoolVal(False)
        if isinstance(e, sp.Heaviside):
            a = c.real(go(e.args[0]))
            return z3.If(a > 0, RV(1), z3.If(a < 0, RV(0), RV(Fraction(1, 2))))
        raise Unsupported(f"sympy node {type(e).__name__}: {str(e)[:60]}")

    return go(e)


def numeric(e, subs: dict, dps=40):
    """Evaluate a sympy expression at a point (symbol -> number) with mpmath, branch by branch: the conditions of a
    Piecewise are decided first and only the selected branch is evaluated (sympy's own subs + N evaluates - and may raise
    in - the branches that are not taken).  Replay only."""
    import mpmath as mp
    import sympy as sp

    mp.mp.dps = dps
    FN = {sp.exp: mp.exp, sp.log: mp.log, sp.sin: mp.sin, sp.cos: mp.cos, sp.tan: mp.tan, sp.asin: mp.asin, sp.acos: mp.acos,
          sp.atan: mp.atan, sp.sinh: mp.sinh, sp.cosh: mp.cosh, sp.tanh: mp.tanh, sp.floor: mp.floor, sp.ceiling: mp.ceil}

    def real(v):
        if isinstance(v, mp.mpc):
            if v.imag != 0:
                raise ValueError("complex value")
            return v.real
        return v

    def go(x):
        if x.is_Symbol:
            return mp.mpf(subs[x])
        if x is sp.pi:
            return mp.pi
        if x is sp.E:
            return mp.e
        if x is sp.true:
            return True
        if x is sp.false:
            return False
        if x.is_Rational:
            return mp.mpf(x.p) / mp.mpf(x.q)
        if x.is_Float:
            return mp.mpf(str(x)) if False else mp.mpf(float(x))
        if x.is_Add:
            r = mp.mpf(0)
            for a in x.args:
                r += go(a)
            return r
        if x.is_Mul:
            r = mp.mpf(1)
            for a in x.args:
                r *= go(a)
            return r
        if x.is_Pow:
            return real(mp.power(go(x.args[0]), go(x.args[1])))
        if isinstance(x, sp.Piecewise):
            for val, cond in x.args:
                if cond is sp.true or go(cond):
                    return go(val)
            raise ValueError("no branch of the Piecewise applies")
        if isinstance(x, sp.core.relational.Relational):
            a, b = go(x.lhs), go(x.rhs)
            return {"<": a < b, "<=": a <= b, ">": a > b, ">=": a >= b, "==": a == b, "!=": a != b}[x.rel_op]
        if isinstance(x, sp.And):
            return all(go(a) for a in x.args)
        if isinstance(x, sp.Or):
            return any(go(a) for a in x.args)
        if isinstance(x, sp.Not):
            return not go(x.args[0])
        if isinstance(x, sp.ITE):
            return go(x.args[1]) if go(x.args[0]) else go(x.args[2])
        if isinstance(x, sp.Abs):
            return abs(go(x.args[0]))
        if isinstance(x, sp.sign):
            v = go(x.args[0])
            return mp.mpf(1 if v > 0 else (-1 if v < 0 else 0))
        if isinstance(x, sp.Mod):
            a, b = go(x.args[0]), go(x.args[1])
            return a - b * mp.floor(a / b)
        if isinstance(x, sp.Heaviside):
            v = go(x.args[0])
            return mp.mpf(1 if v > 0 else (0 if v < 0 else 0.5))
        if x.func in FN:
            return real(FN[x.func](go(x.args[0])))
        raise ValueError(f"numeric: sympy node {type(x).__name__}")

    r = go(e)
    if isinstance(r, bool):
        return 1.0 if r else 0.0
    return float(real(r))
