"""E4b - sympy expression -> term (used for C20's symbolic matrices and C15)."""
from __future__ import annotations

from fractions import Fraction

import z3

from .pysym import Unsupported
from .smt import Ctx, RV, kappa_float


def to_term(ctx: Ctx, e, sym):
    """sym: callable name -> z3 term for sympy Symbols."""
    import sympy as sp

    c = ctx

    def go(e):
        if e.is_Symbol:
            return sym(e.name)
        if e.is_Integer:
            return RV(Fraction(int(e)))
        if e.is_Rational:
            return RV(Fraction(int(e.p), int(e.q)))
        if e.is_Float:
            return RV(kappa_float(float(e)))
        if e is sp.pi:
            return c.pi
        if e is sp.E:
            return c.exp(RV(1))
        if e is sp.true:
            return z3.BoolVal(True)
        if e is sp.false:
            return z3.BoolVal(False)
        if e.is_Add:
            r = None
            for a in e.args:
                t = c.real(go(a))
                r = t if r is None else r + t
            return r
        if e.is_Mul:
            r = None
            for a in e.args:
                t = c.real(go(a))
                r = t if r is None else r * t
            return r
        if e.is_Pow:
            return c.pow(go(e.args[0]), go(e.args[1]))
        if isinstance(e, sp.exp):
            return c.exp(go(e.args[0]))
        if isinstance(e, sp.log):
            return c.log(go(e.args[0]))
        for cls, name in ((sp.sin, "sin"), (sp.cos, "cos"), (sp.tan, "tan"), (sp.asin, "asin"), (sp.acos, "acos"),
                          (sp.atan, "atan")):
            if isinstance(e, cls):
                return c.fn(name, go(e.args[0]))
        if isinstance(e, sp.Abs):
            return c.abs(go(e.args[0]))
        if isinstance(e, sp.sign):
            return c.sign(go(e.args[0]))
        if isinstance(e, sp.floor):
            return c.floor(go(e.args[0]))
        if isinstance(e, sp.ceiling):
            return -c.floor(-c.real(go(e.args[0])))
        if isinstance(e, sp.Mod):
            return c.floormod(go(e.args[0]), go(e.args[1]))
        if isinstance(e, sp.Piecewise):
            res = None
            for val, cond in reversed(e.args):
                v = go(val)
                if cond is sp.true:
                    res = v
                else:
                    if res is None:
                        res = c.inp("undef_piecewise")
                    res = c.ite(go(cond), v, res)
            return res
        if isinstance(e, sp.core.relational.Relational):
            return c.rel(e.rel_op, go(e.lhs), go(e.rhs))
        if isinstance(e, sp.And):
            return c.and_(*[go(a) for a in e.args])
        if isinstance(e, sp.Or):
            return c.or_(*[go(a) for a in e.args])
        if isinstance(e, sp.Not):
            return c.not_(go(e.args[0]))
        if isinstance(e, sp.Heaviside):
            a = c.real(go(e.args[0]))
            return z3.If(a > 0, RV(1), z3.If(a < 0, RV(0), RV(Fraction(1, 2))))
        raise Unsupported(f"sympy node {type(e).__name__}: {str(e)[:60]}")

    return go(e)
