"""Shared obligation builders over (reference model, emitted-module view)."""
from __future__ import annotations

import z3

from . import refsem, pipeline, smt
from .core import Prog
from .pysym import ArtefactError, Unsupported
from .refsem import Evaluator, RefError
from .smt import RV, is_numeral


def env_from_inputs(m: refsem.Model, inputs: dict):
    env = {}
    for k, v in inputs.items():
        if k.startswith("s_") or k.startswith("p_") or k.startswith("m_"):
            env[k[2:]] = v
        elif k in ("t", "dt"):
            env[k] = v
    for s in m.states:
        env.setdefault(s, 0.0)
    for p in m.params:
        env.setdefault(p, 0.0)
    env.setdefault("t", 0.0)
    return env


def ref_eval_factory(m: refsem.Model, ast):
    def f(inputs):
        return refsem.numeric(ast, env_from_inputs(m, inputs), m)
    return f


def load_all(prog: Prog, text: str):
    """Parse with the reference front end and load with the real loader.
    Returns (refmodel, ode) or (None, None) after recording why."""
    try:
        m = refsem.parse_model(text)
    except RefError as e:
        prog.skip("parse", f"reference parser: {e}")
        return None, None
    try:
        ode = pipeline.load(text)
    except Exception as e:
        prog.skip("load", f"real loader rejected the text: {type(e).__name__}: {e}"[:300])
        return m, None
    return m, ode


def generate(prog: Prog, label, fn, *a, **kw):
    """Run a real generation step; an exception on an accepted model is a violation."""
    try:
        return fn(*a, **kw)
    except Exception as e:
        prog.fact(label, False, "GenerationError", f"generation raised {type(e).__name__}: {e}"[:400])
        return None


def sym_function(prog: Prog, view, fn, label=None, **kw):
    """Symbolically execute fn of view. Returns (slots dict, n) or None."""
    label = label or f"{view.backend}|{fn}|exec"
    try:
        out, n, ex = view.sym_scalar(prog.ctx, fn, **kw)
        return out, n, ex
    except ArtefactError as e:
        def confirm():
            try:
                zero = {}
                view.concrete(fn, zero)
            except Exception as ex:
                return True, f"real call raised {type(ex).__name__}: {ex}"[:300]
            return False, "real call at zero inputs did not raise"
        prog.structural(label, e, confirm if e.kind not in ("Redefinition",) else None)
        return None
    except Unsupported as e:
        prog.skip(label, f"unsupported construct: {e}")
        return None


class Cut:
    """Compositional cut (DESIGN 2.6): intermediates already proved equal on both
    sides are replaced by one shared fresh variable in later queries.  Sound for
    unsat; a sat under the cut is retried fully expanded."""

    def __init__(self):
        self.subs = []      # (emitted term, fresh)
        self.env = {}       # name -> fresh

    def add(self, ctx, name, gen_term):
        if name in self.env:
            return
        if is_numeral(gen_term) or (z3.is_const(gen_term) and gen_term.get_id() not in ctx.var_info):
            return
        for g, f in self.subs:
            if g.get_id() == gen_term.get_id():
                self.env[name] = f
                return
        f = ctx.inp(f"i_{name}")
        self.subs.append((gen_term, f))
        self.env[name] = f

    def apply(self, term):
        if not self.subs:
            return term
        return z3.substitute(term, *self.subs)


def topo_names(m: refsem.Model, names):
    order, seen = [], set()

    def visit(n, stack=()):
        if n in seen or n not in m.assigns or n in stack:
            return
        for d in sorted(m.uses(n)):
            visit(d, stack + (n,))
        seen.add(n)
        order.append(n)

    for n in names:
        visit(n)
    return [n for n in order if n in set(names)]


def check_named_slots(prog: Prog, view, m: refsem.Model, fn: str, index_kind: str, names, what,
                      extra_env=None, missing=None, cut: Cut | None = None, grow_cut=False):
    """rhs / monitor_values: slot index(name) == reference meaning of name's expression."""
    res = sym_function(prog, view, fn)
    if res is None:
        return
    slots, n, _ = res
    imap = view.index_map(index_kind)
    names = topo_names(m, names)
    for name in names:
        label = f"{view.backend}|{fn}|{name}"
        key = name
        if index_kind == "state":
            key = m.derivative_of(name)
        if key not in imap:
            prog.fact(label, False, "MissingIndex", f"{index_kind}_index has no entry for {key}")
            continue
        idx = imap[key]
        if idx not in slots:
            prog.fact(label, False, "SlotNotWritten", f"{fn} never writes slot {idx} ({key})")
            continue
        gen = slots[idx]
        ge = (lambda inputs, idx=idx: view.concrete(fn, inputs)[idx])
        re_ = ref_eval_factory(m, m.assigns[name])
        wh = f"{fn}[{index_kind}_index({key})={idx}] vs {name}"
        verdict = None
        if cut is not None and cut.subs:
            env2 = dict(extra_env or {})
            env2.update(cut.env)
            ev = Evaluator(prog.ctx, m, env=env2, missing=missing)
            try:
                ref = ev.ev(m.assigns[name])
                tmp = smt.Stats()
                v, _, info = smt.check(prog.ctx, ev.dom, prog.ctx.real(cut.apply(gen)) != prog.ctx.real(ref),
                                       timeout_ms=prog.timeout_ms, stats=tmp, want_model=False)
                if v == "unsat":
                    prog.stats.merge(tmp)
                    prog.obligations += 1
                    prog.discharged += 1
                    prog.record_sample(label + "|cut", v, info)
                    verdict = v
            except RefError:
                pass
        if verdict is None:
            ev = Evaluator(prog.ctx, m, env=extra_env, missing=missing)
            try:
                ref = ev.ev(m.assigns[name])
            except RefError as e:
                prog.skip(label, f"reference: {e}")
                continue
            verdict = prog.eq(label, ev.dom, gen, ref, gen_eval=ge, ref_eval=re_, what=wh)
        if verdict == "unsat" and grow_cut and cut is not None and not m.derivative_of(name):
            cut.add(prog.ctx, name, gen)


def check_rhs_monitor(prog: Prog, view, m: refsem.Model, do_monitor=True):
    ders = [n for n in m.assigns if m.derivative_of(n)]
    cut = Cut()
    if do_monitor and view.has("monitor_values"):
        check_named_slots(prog, view, m, "monitor_values", "monitor", list(m.assigns), "monitor", cut=cut,
                          grow_cut=True)
    check_named_slots(prog, view, m, "rhs", "state", ders, "rhs", cut=cut)
    return cut
