"""Shared obligation builders over (reference model, emitted-module view)."""
from __future__ import annotations

import z3

from . import refsem, pipeline, smt
from .core import Prog
from .pysym import ArtefactError, Unsupported
from .refsem import Evaluator, RefError
from .smt import RV, is_numeral


def env_from_inputs(m: refsem.Model, inputs: dict):
    """Environment for the reference evaluator: states, parameters, time only.  (Solver-model values of
    missing-variable inputs m_* or cut variables i_* must never override the model's own definitions.)"""
    env = {}
    for k, v in inputs.items():
        if k.startswith("s_") or k.startswith("p_"):
            env[k[2:]] = v
    for s in m.states:
        env.setdefault(s, 0.0)
    for p in m.params:
        env.setdefault(p, 0.0)
    # time lives under its own key: a model quantity may itself be called t / time
    env["__time__"] = inputs.get("t", 0.0)
    return env


def ref_eval_factory(m: refsem.Model, ast):
    def f(inputs):
        return refsem.numeric(ast, env_from_inputs(m, inputs), m)
    return f


def load_all(prog: Prog, text: str):
    """Parse with the reference front end and load with the real loader.
    Returns (refmodel, ode) or (None, None) after recording why."""
    try:
        m = refsem.parse_model(text)
    except RefError as e:
        prog.skip("parse", f"reference parser: {e}")
        return None, None
    prog.refmodel = m
    try:
        ode = pipeline.load(text)
    except Exception as e:
        prog.skip("load", f"real loader rejected the text: {type(e).__name__}: {e}"[:300])
        return m, None
    return m, ode


def generate(prog: Prog, label, fn, *a, **kw):
    """Run a real generation step; an exception on an accepted model is a violation."""
    try:
        return fn(*a, **kw)
    except Exception as e:
        prog.fact(label, False, "GenerationError", f"generation raised {type(e).__name__}: {e}"[:400])
        return None


def sym_function(prog: Prog, view, fn, label=None, **kw):
    """Symbolically execute fn of view. Returns (slots dict, n) or None."""
    label = label or f"{view.backend}|{fn}|exec"
    try:
        out, n, ex = view.sym_scalar(prog.ctx, fn, **kw)
        if not kw and fn not in ("init_state_values", "init_parameter_values") and prog.validate_encoders:
            key = (view.backend, fn, id(view))
            jax_skip = view.backend == "jax" and (fn not in ("rhs", "monitor_values") or int(str(int.from_bytes(prog.pid.encode(), "big"))[-3:]) % 8 != 0)
            if key not in prog._validated and not jax_skip:
                prog._validated.add(key)
                validate_encoding(prog, view, fn, out)
        return out, n, ex
    except ArtefactError as e:
        def confirm():
            try:
                zero = {}
                view.concrete(fn, zero)
            except Exception as ex:
                return True, f"real call raised {type(ex).__name__}: {ex}"[:300]
            return False, "real call at zero inputs did not raise"
        prog.structural(label, e, confirm if e.kind not in ("Redefinition",) else None)
        return None
    except Unsupported as e:
        prog.skip(label, f"unsupported construct: {e}")
        return None


class Cut:
    """Compositional cut (DESIGN 2.6): intermediates already proved equal on both
    sides are replaced by one shared fresh variable in later queries.  Sound for
    unsat; a sat under the cut is retried fully expanded."""

    def __init__(self):
        self.subs = []      # (emitted term, fresh)
        self.env = {}       # name -> fresh

    def add(self, ctx, name, gen_term):
        if name in self.env:
            return
        if is_numeral(gen_term) or (z3.is_const(gen_term) and gen_term.get_id() not in ctx.var_info):
            return
        for g, f in self.subs:
            if g.get_id() == gen_term.get_id():
                self.env[name] = f
                return
        f = ctx.inp(f"i_{name}")
        self.subs.append((gen_term, f))
        self.env[name] = f

    def apply(self, term):
        if not self.subs:
            return term
        return z3.substitute(term, *self.subs)


def topo_names(m: refsem.Model, names):
    order, seen = [], set()

    def visit(n, stack=()):
        if n in seen or n not in m.assigns or n in stack:
            return
        for d in sorted(m.uses(n)):
            visit(d, stack + (n,))
        seen.add(n)
        order.append(n)

    for n in names:
        visit(n)
    return [n for n in order if n in set(names)]


def check_named_slots(prog: Prog, view, m: refsem.Model, fn: str, index_kind: str, names, what,
                      extra_env=None, missing=None, cut: Cut | None = None, grow_cut=False, tag=""):
    """rhs / monitor_values: slot index(name) == reference meaning of name's expression."""
    res = sym_function(prog, view, fn, label=f"{view.backend}|{fn}{tag}|exec")
    if res is None:
        return
    slots, n, _ = res
    imap = view.index_map(index_kind)
    names = topo_names(m, names)
    for name in names:
        label = f"{view.backend}|{fn}{tag}|{name}"
        key = name
        if index_kind == "state":
            key = m.derivative_of(name)
        if key not in imap:
            prog.fact(label, False, "MissingIndex", f"{index_kind}_index has no entry for {key}")
            continue
        idx = imap[key]
        if idx not in slots:
            prog.fact(label, False, "SlotNotWritten", f"{fn} never writes slot {idx} ({key})")
            continue
        gen = slots[idx]
        ge = (lambda inputs, idx=idx: view.concrete(fn, inputs)[idx])
        re_ = ref_eval_factory(m, m.assigns[name])
        wh = f"{fn}[{index_kind}_index({key})={idx}] vs {name}"
        verdict = None
        if cut is not None and cut.subs:
            env2 = dict(extra_env or {})
            env2.update(cut.env)
            ev = Evaluator(prog.ctx, m, env=env2, missing=missing)
            try:
                ref = ev.ev(m.assigns[name])
                tmp = smt.Stats()
                v, _, info = smt.check(prog.ctx, ev.dom, prog.ctx.real(cut.apply(gen)) != prog.ctx.real(ref),
                                       timeout_ms=prog.timeout_ms, stats=tmp, want_model=False)
                if v == "unsat":
                    prog.stats.merge(tmp)
                    prog.obligations += 1
                    prog.discharged += 1
                    prog.record_sample(label + "|cut", v, info)
                    verdict = v
            except RefError:
                pass
        if verdict is None:
            ev = Evaluator(prog.ctx, m, env=extra_env, missing=missing)
            try:
                ref = ev.ev(m.assigns[name])
            except RefError as e:
                prog.skip(label, f"reference: {e}")
                continue
            verdict = prog.eq(label, ev.dom, gen, ref, gen_eval=ge, ref_eval=re_, what=wh)
        if verdict == "unsat" and grow_cut and cut is not None and not m.derivative_of(name):
            cut.add(prog.ctx, name, gen)


def check_rhs_monitor(prog: Prog, view, m: refsem.Model, do_monitor=True, tag=""):
    ders = [n for n in m.assigns if m.derivative_of(n)]
    cut = Cut()
    if do_monitor and view.has("monitor_values"):
        check_named_slots(prog, view, m, "monitor_values", "monitor", list(m.assigns), "monitor", cut=cut,
                          grow_cut=True, tag=tag)
    check_named_slots(prog, view, m, "rhs", "state", ders, "rhs", cut=cut, tag=tag)
    return cut


# ----------------------------------------------------------------------------
# views
# ----------------------------------------------------------------------------
def make_view(prog: Prog, ode, backend, label=None, **gen_kw):
    """Generate with the real pipeline and wrap in a symbolic view (or None)."""
    from .views import PyView, CView
    from .irsym import CompileError

    label = label or f"{backend}|get_code"
    if backend == "c":
        code = generate(prog, label, pipeline.gen_c, ode, **gen_kw)
        if code is None:
            return None
        try:
            v = CView(code)
        except CompileError as e:
            prog.fact(f"c|compile-ir", False, "CompileError", f"clang cannot compile the emitted C: {e.msg[:300]}")
            return None
        for cc, msg in v.compile_failures:
            prog.fact(f"c|compile|{cc}", False, "CompileError", f"{cc} (default mode) rejects the emitted C: {msg[:300]}")
        return v
    code = generate(prog, label, pipeline.gen_py, ode, backend=backend, **gen_kw)
    if code is None:
        return None
    try:
        return PyView(code, backend)
    except SyntaxError as e:
        prog.fact(f"{backend}|parse", False, "SyntaxError", f"emitted module does not parse: {e}")
    except ArtefactError as e:
        prog.structural(f"{backend}|module", e)
    return None


def model_domain(prog: Prog, m: refsem.Model, names=None):
    """Definedness of the model's expressions (for relational obligations)."""
    ev = Evaluator(prog.ctx, m)
    for n in (names or list(m.assigns)):
        try:
            ev.ev(m.assigns[n])
        except RefError:
            pass
    return ev.dom


def state_slots(view, m: refsem.Model):
    imap = view.index_map("state")
    return {s: imap[s] for s in m.states if s in imap}


# ----------------------------------------------------------------------------
# C05 explicit Euler
# ----------------------------------------------------------------------------
def check_euler(prog: Prog, view, m: refsem.Model, fn="explicit_euler", rhs_slots=None, tag=""):
    res = sym_function(prog, view, fn, label=f"{view.backend}|{fn}{tag}|exec")
    if res is None:
        return None
    slots, n, _ = res
    if rhs_slots is None:
        r = sym_function(prog, view, "rhs")
        if r is None:
            return None
        rhs_slots = r[0]
    c = prog.ctx
    dom = model_domain(prog, m)
    dt = c.inp("dt")
    for s, idx in state_slots(view, m).items():
        label = f"{view.backend}|{fn}{tag}|{s}"
        if idx not in slots:
            prog.fact(label, False, "SlotNotWritten", f"{fn} never writes slot {idx} ({s})")
            continue
        want = c.inp(f"s_{s}") + dt * rhs_slots[idx]
        ge = (lambda inputs, idx=idx: view.concrete(fn, inputs)[idx])

        def re_(inputs, idx=idx, s=s):
            return inputs.get(f"s_{s}", 0.0) + inputs.get("dt", 0.0) * view.concrete("rhs", inputs)[idx]

        prog.eq(label, dom, slots[idx], want, gen_eval=ge, ref_eval=re_, what=f"{fn}[{s}] vs states + dt*rhs")
        # dt = 0 returns the input state
        prog.eq(label + "|dt0", dom + [dt == 0], slots[idx], c.inp(f"s_{s}"), gen_eval=ge,
                ref_eval=lambda inputs, s=s: inputs.get(f"s_{s}", 0.0), what=f"{fn}[{s}] at dt=0")
    return slots


# ----------------------------------------------------------------------------
# C06 generalized Rush-Larsen / C07 hybrid
# ----------------------------------------------------------------------------
def rl_reference(prog: Prog, m: refsem.Model, s: str, env=None):
    """(f term, g term, domain, g_ast) for state s with g = d f_s / d s, other names held fixed."""
    fa = m.rate(s)
    ga = refsem.diff(fa, s, m, expand=False)
    ev = Evaluator(prog.ctx, m, env=env)
    f = prog.ctx.real(ev.ev(fa))
    g = prog.ctx.real(ev.ev(ga))
    return f, g, ev.dom, ga


def rl_concrete(m, s, fa, ga, delta):
    import mpmath as mp

    def ref(inputs):
        env = env_from_inputs(m, inputs)
        f = refsem.numeric(fa, env, m)
        g = refsem.numeric(ga, env, m)
        x = mp.mpf(inputs.get(f"s_{s}", 0.0))
        dt = mp.mpf(inputs.get("dt", 0.0))
        if abs(g) > delta:
            return x + f / g * (mp.exp(g * dt) - 1)
        return x + dt * f
    return ref


def eq_with_cut(prog: Prog, label, make, gen_eval, ref_eval, what, cut):
    """Try the obligation under the compositional cut first (quietly); fall back to the
    fully expanded form, which is the one that is replayed and reported."""
    if cut is not None and cut.subs:
        try:
            hyps, gen, ref = make(cut)
            tmp = smt.Stats()
            v, _, info = smt.check(prog.ctx, hyps, prog.ctx.real(gen) != prog.ctx.real(ref),
                                   timeout_ms=prog.timeout_ms, stats=tmp, want_model=False)
            if v == "unsat":
                prog.obligations += 1
                prog.discharged += 1
                prog.stats.merge(tmp)
                prog.record_sample(label + "|cut", v, info)
                return v
        except (RefError, refsem.NotDifferentiable):
            pass
    hyps, gen, ref = make(None)
    return prog.eq(label, hyps, gen, ref, gen_eval=gen_eval, ref_eval=ref_eval, what=what)


def check_grl(prog: Prog, view, m: refsem.Model, delta, fn="generalized_rush_larsen", only=None, tag="", cut=None):
    res = sym_function(prog, view, fn, label=f"{view.backend}|{fn}{tag}|exec")
    if res is None:
        return None
    slots, n, _ = res
    c = prog.ctx
    dt = c.inp("dt")
    d = RV(smt.kappa_float(delta))
    for s, idx in state_slots(view, m).items():
        if only is not None and s not in only:
            continue
        label = f"{view.backend}|{fn}{tag}|{s}"
        if idx not in slots:
            prog.fact(label, False, "SlotNotWritten", f"{fn} never writes slot {idx} ({s})")
            continue
        try:
            ga = refsem.diff(m.rate(s), s, m, expand=False)
            rl_reference(prog, m, s)
        except (refsem.NotDifferentiable, RefError) as e:
            prog.skip(label, f"reference differentiator: {e}")
            continue
        x = c.inp(f"s_{s}")
        ge = (lambda inputs, idx=idx: view.concrete(fn, inputs)[idx])
        re_ = rl_concrete(m, s, m.rate(s), ga, delta)

        def parts(ct, s=s, idx=idx):
            f, g, dom, _ = rl_reference(prog, m, s, env=(ct.env if ct else None))
            out = ct.apply(slots[idx]) if ct else slots[idx]
            return f, g, dom, out

        if refsem._is_zero(ga):
            def mk(ct):
                f, g, dom, out = parts(ct)
                return dom, out, x + dt * f
            eq_with_cut(prog, label + "|g==0", mk, ge, re_, f"{fn}[{s}] with g identically 0 must be Euler", cut)
            continue

        def mk_big(ct):
            f, g, dom, out = parts(ct)
            return dom + [z3.Or(g > d, g < -d)], out, x + f / g * (c.exp(g * dt) - 1)

        def mk_small(ct):
            f, g, dom, out = parts(ct)
            return dom + [z3.Not(z3.Or(g > d, g < -d))], out, x + dt * f

        def mk_dt0(ct):
            f, g, dom, out = parts(ct)
            return dom + [dt == 0], out, x

        eq_with_cut(prog, label + "|abs(g)>delta", mk_big, ge, re_, f"{fn}[{s}] RL formula where |g|>{delta}", cut)
        eq_with_cut(prog, label + "|abs(g)<=delta", mk_small, ge, re_, f"{fn}[{s}] Euler fallback where |g|<={delta}", cut)
        eq_with_cut(prog, label + "|dt0", mk_dt0, ge, re_, f"{fn}[{s}] at dt=0", cut)
    return slots


# ----------------------------------------------------------------------------
# init_*_values defaults (C02/C03/C04/C11)
# ----------------------------------------------------------------------------
def check_init_defaults(prog: Prog, view, m: refsem.Model):
    for fn, kind, decl in (("init_state_values", "state", m.states), ("init_parameter_values", "parameter", m.params)):
        if not view.has(fn):
            prog.fact(f"{view.backend}|{fn}|exists", False, "MissingFunction", f"{fn} not emitted")
            continue
        if not decl:
            continue
        res = sym_function(prog, view, fn)
        if res is None:
            continue
        slots, n, _ = res
        imap = view.index_map(kind)
        prog.fact(f"{view.backend}|{fn}|length", n == len(decl), "WrongLength",
                  f"{fn} initialises {n} slots, model declares {len(decl)} {kind}s")
        for name, val_ast in decl.items():
            label = f"{view.backend}|{fn}|{name}"
            if name not in imap or imap[name] not in slots:
                prog.fact(label, False, "MissingIndex", f"{kind}_index/{fn} has no slot for {name}")
                continue
            idx = imap[name]
            ev = Evaluator(prog.ctx, None)
            try:
                ref = ev.ev(val_ast)
            except RefError as e:
                prog.skip(label, f"reference: {e}")
                continue
            ge = (lambda inputs, idx=idx, fn=fn: view.concrete(fn, {})[idx])
            re_ = (lambda inputs, a=val_ast: refsem.numeric(a, {}, None))
            prog.eq(label, ev.dom, slots[idx], ref, gen_eval=ge, ref_eval=re_, what=f"{fn}[{kind}_index({name})={idx}] vs declared default")


# ----------------------------------------------------------------------------
# output lengths (C03/C04)
# ----------------------------------------------------------------------------
def check_length(prog: Prog, view, fn, expected, what):
    label = f"{view.backend}|{fn}|length"
    try:
        if view.backend == "c":
            return
        out, n, _ = view.sym(prog.ctx, fn)
    except (ArtefactError, Unsupported):
        return  # reported by the value checks
    if n == expected:
        prog.fact(label, True, "", "")
        return

    def confirm():
        r = view.concrete(fn, {})
        return (len(r) != expected, f"real call returned {len(r)} entries, expected {expected} ({what})")

    prog.structural(label, ArtefactError("WrongLength", f"{fn} returns {n} entries, expected {expected} ({what})"), confirm)


# ----------------------------------------------------------------------------
# missing_values (C03/C13)
# ----------------------------------------------------------------------------
def check_missing_values(prog: Prog, view, full: refsem.Model, wanted: dict, rest_missing: dict | None = None,
                         fn="missing_values"):
    """missing_values of a sub-model B: slot wanted[name] == meaning of `name` in the FULL model, where
    B's own missing variables (symbolic m_<k>) stand for the full model's value of k."""
    res = sym_function(prog, view, fn)
    if res is None:
        return
    slots, n, _ = res
    c = prog.ctx
    # bind B's missing inputs to the full model's meaning (as hypotheses; see c13.missing_hyps)
    sub_hyps = []
    for k in (rest_missing or {}):
        ev0 = Evaluator(c, full)
        try:
            sub_hyps.append(c.inp(f"m_{k}") == c.real(ev0.name_term(k, None)))
        except RefError:
            pass
    for name, idx in wanted.items():
        label = f"{view.backend}|{fn}|{name}"
        if idx not in slots:
            prog.fact(label, False, "SlotNotWritten", f"{fn} never writes slot {idx} ({name})")
            continue
        ev = Evaluator(c, full)
        try:
            ref = c.real(ev.name_term(name, None))
        except RefError as e:
            prog.skip(label, f"reference: {e}")
            continue
        gen = slots[idx]

        def ge(inputs, idx=idx):
            inp = dict(inputs)
            env = env_from_inputs(full, inputs)
            for k in (rest_missing or {}):
                inp[f"m_{k}"] = float(refsem.numeric(("var", k), env, full))
            return view.concrete(fn, inp)[idx]

        re_ = (lambda inputs, name=name: refsem.numeric(("var", name), env_from_inputs(full, inputs), full))
        prog.eq(label, ev.dom + sub_hyps, gen, ref, gen_eval=ge, ref_eval=re_, what=f"{fn}[{idx}] vs full-model value of {name}")


# ----------------------------------------------------------------------------
# encoder validation ("validate the translator", guidance): the symbolic term of every slot is
# evaluated at a concrete point and compared with the really executed artefact.
# ----------------------------------------------------------------------------
def sample_inputs(view, m: refsem.Model | None, k=0):
    base = [0.7, 1.3, 0.45, 2.1, 0.9, 1.7, 0.3, 1.1]
    inp = {"t": 0.6 + 0.25 * k, "dt": 0.125}
    for i, s in enumerate(sorted(view.index_map("state"))):
        inp[f"s_{s}"] = base[(i + k) % len(base)] + 0.05 * i
    for i, p in enumerate(sorted(view.index_map("parameter"))):
        inp[f"p_{p}"] = base[(i + 3 + k) % len(base)] + 0.03 * i
    for i, p in enumerate(sorted(view.index_map("missing"))):
        inp[f"m_{p}"] = base[(i + 5 + k) % len(base)]
    return inp


def validate_encoding(prog: Prog, view, fn, slots, m=None, points=1):
    """Harness self-check: symbolic term vs real execution at concrete points.  A disagreement means MY
    encoder (pysym / irsym tables) is wrong: it is recorded as a harness error, never as a violation."""
    from .smt import eval_term, EvalError
    from .core import differs

    for k in range(points):
        inp = sample_inputs(view, m, k)
        try:
            real = view.concrete(fn, inp)
        except Exception as e:
            from .views import HarnessCallError
            if isinstance(e, HarnessCallError) or view.backend == "c":
                prog.notes.append({"encoder-validation-skip": f"{fn}: {e}"[:120]})
                return
            # the symbolic executor accepted the function but the really executed code raises
            rm = m or getattr(prog, "refmodel", None)
            if rm is not None:
                # only where the model itself is defined: a model with an expression that has no real value at this
                # point (sqrt of a negative constant, ...) is outside the property and may raise (complex, 0**-1)
                try:
                    for a in rm.assigns.values():
                        refsem.numeric(a, env_from_inputs(rm, inp), rm)
                except Exception as e2:
                    prog.notes.append({"encoder-validation-skip": f"{fn}: reference undefined at the sample point ({e2})"[:160]})
                    return
            prog.fact(f"{view.backend}|{fn}|real-call", False, "RealCallRaised",
                      f"{fn} raises when really called at {inp}: {type(e).__name__}: {str(e)[:200]}")
            return
        for idx, term in slots.items():
            try:
                sym = eval_term(prog.ctx, term, inp)
            except EvalError:
                continue
            except Exception as e:
                prog.notes.append({"encoder-validation-skip": str(e)[:100]})
                continue
            from . import smt as _smt
            if idx < len(real) and differs(real[idx], sym, tol=1e-7) and _smt.EVAL_TIES:
                prog.notes.append({"encoder-validation-skip": f"{fn}[{idx}] comparison / floor tie at the sample point"})
                continue
            if idx < len(real) and differs(real[idx], sym, tol=1e-7):
                # a tie that my term constructors folded away at construction time (Mod(1, 0.2) -> 0): ask the reference
                # evaluator, which tracks exactness, whether the model passes a discontinuity on a tie at this point
                rm = m or getattr(prog, "refmodel", None)
                tied = False
                if rm is not None:
                    for a in rm.assigns.values():
                        try:
                            refsem.numeric(a, env_from_inputs(rm, inp), rm)
                        except Exception:
                            tied = True
                            break
                        if refsem.NEAR_TIES:
                            tied = True
                            break
                if tied:
                    prog.notes.append({"encoder-validation-skip": f"{fn}[{idx}] the model passes a comparison / floor on a tie at the sample point"})
                    continue
            if idx < len(real) and differs(real[idx], sym, tol=1e-7):
                # ill-conditioned sample point (cos of 1e11, a cancellation): 16 significant digits change the value of
                # MY term as well, so the disagreement says nothing about the encoder
                try:
                    low = eval_term(prog.ctx, term, inp, prec=15)     # 15 digits = 53 bits in mpmath
                    if differs(float(low), sym, tol=1e-9) or real[idx] != real[idx] or abs(real[idx]) == float("inf"):
                        prog.notes.append({"encoder-validation-skip": f"{fn}[{idx}] ill-conditioned at the sample point"})
                        continue
                except Exception:
                    prog.notes.append({"encoder-validation-skip": f"{fn}[{idx}] not evaluable at 16 digits"})
                    continue
                prog.stats.errors.append(
                    f"ENCODER MISMATCH {view.backend}.{fn}[{idx}]: symbolic {float(sym)!r} vs real {real[idx]!r} at {inp} "
                    f"(program {prog.pid})")
        prog.stats.second_opinion += 0
    prog.notes.append({"encoder_validated": f"{view.backend}.{fn}"})
