"""Entry point: python -m vt.main C01 --tier quick"""
from __future__ import annotations

import argparse
import importlib
import json
import os
import sys
import time


def main():
    ap = argparse.ArgumentParser()
    ap.add_argument("prop")
    ap.add_argument("--tier", default=os.environ.get("VERIF_TIER", "quick"))
    ap.add_argument("--replay", default=None)
    ap.add_argument("--procs", type=int, default=None)
    a = ap.parse_args()
    seed = int(os.environ.get("VERIF_SEED", "0") or 0)
    from . import pipeline, core

    pipeline.quiet()
    mod = importlib.import_module(f"vt.props.{a.prop.lower()}")
    t0 = time.time()
    if a.replay:
        rec = json.load(open(a.replay))
        r = mod.work(rec["task"])
        hit = [v for v in r["violations"] if v["key"] == rec["key"]]
        for v in r["violations"]:
            print(("REPRODUCED " if v["key"] == rec["key"] else "other      ") + v["key"], "-", v["detail"][:300])
        print("replay:", "violation reproduced" if hit else "violation NOT reproduced on the current tree")
        sys.exit(1 if hit else 0)
    if hasattr(mod, "run"):
        sys.exit(mod.run(a.tier, seed))
    tasks = mod.tasks(a.tier, seed)
    limit = getattr(mod, "TASK_LIMIT", 180)
    results = core.run_pool(mod.work, tasks, procs=a.procs, task_limit=limit)
    if hasattr(mod, "post"):
        results = mod.post(results, a.tier, seed) or results
    rc = core.finish(mod.PROP, a.tier, seed, mod.LEVEL, results, t0, mod.RULE, mod.FUNCTIONS,
                     mod.bounds(a.tier), mod.ASSUME, explanation=getattr(mod, "EXPLANATION", ""),
                     exhaustive=getattr(mod, "EXHAUSTIVE", False))
    sys.exit(rc)


if __name__ == "__main__":
    main()
